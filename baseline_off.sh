#!/bin/bash
# Runs the repository's own suite with the `verif` guard OFF and checks that every
# test listed as stable in /root/.vp/BASELINE.json passes. The suite uses fixed ports
# (8900-8913) from several packages at once, so a package with a non-passing stable test
# is re-run alone (up to 3 times) before it counts. Exit 0 iff all stable tests pass.
export GOFLAGS=-mod=mod GOPROXY=off GOSUMDB=off GOTOOLCHAIN=local
REPO="${VERIF_REPO:-/repo}"
OUT="$(mktemp -d)"
(cd "$REPO" && flock /tmp/siot-test-ports.lock timeout -s QUIT -k 10 600 go test -mod=mod -json -vet=off -count=1 -timeout 8m ./... > "$OUT/run0.json" 2>/dev/null)
for i in 1 2 3; do
  PK=$(python3 - "$OUT" <<'PY'
import json,sys,glob
res={}
for f in sorted(glob.glob(sys.argv[1]+'/run*.json')):
    for l in open(f):
        try: d=json.loads(l)
        except Exception: continue
        if d.get('Test') and d.get('Action') in ('pass','fail','skip'):
            k=d['Package']+'::'+d['Test']
            if res.get(k)!='pass': res[k]=d['Action']
base=json.load(open('/root/.vp/BASELINE.json'))['stable_pass']
print(' '.join(sorted({t.split('::')[0] for t in base if res.get(t)!='pass'})))
PY
)
  [ -z "$PK" ] && break
  for p in $PK; do (cd "$REPO" && flock /tmp/siot-test-ports.lock timeout -s QUIT -k 10 600 go test -mod=mod -json -vet=off -count=1 -timeout 8m "$p" >> "$OUT/run$i.json" 2>/dev/null); done
done
python3 - "$OUT" <<'PY'
import json,sys,glob
res={}
for f in sorted(glob.glob(sys.argv[1]+'/run*.json')):
    for l in open(f):
        try: d=json.loads(l)
        except Exception: continue
        if d.get('Test') and d.get('Action') in ('pass','fail','skip'):
            k=d['Package']+'::'+d['Test']
            if res.get(k)!='pass': res[k]=d['Action']
base=json.load(open('/root/.vp/BASELINE.json'))['stable_pass']
bad=[t for t in base if res.get(t)!='pass']
print("baseline(guard off): %d/%d stable tests pass"%(len(base)-len(bad),len(base)))
for t in bad: print("  NOT PASSING:",t,res.get(t))
sys.exit(1 if bad else 0)
PY
RC=$?
rm -rf "$OUT"
exit $RC
