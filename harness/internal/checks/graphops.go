package checks

import (
	"fmt"
	"math"
	"strings"
	"time"

	"github.com/nats-io/nats.go"
	"github.com/simpleiot/simpleiot/data"

	"verifharness/internal/vlib"
)

// gdriver drives random graph histories against an instance and keeps the
// harness's graph model in step. Shared by C03, C05, C06, C09.
type gdriver struct {
	r     *vlib.R
	nc    *nats.Conn
	g     *vlib.Graph
	clock int64
	seq   int
	tag   string
	Log   []map[string]any
	// nodes created by this driver, in creation order
	Made []string
	// Finite keeps generated values finite (the HTTP API cannot JSON-encode +-Inf)
	Finite bool
	twins  map[string]bool
}

func newGdriver(r *vlib.R, nc *nats.Conn, root, tag string) *gdriver {
	return &gdriver{r: r, nc: nc, g: vlib.NewGraph(root), clock: 1750000000e9, tag: tag}
}

// now returns a strictly increasing timestamp.
func (d *gdriver) now() time.Time {
	d.clock += 1 + int64(d.r.Intn(1000000))
	return time.Unix(0, d.clock)
}

func (d *gdriver) newID() string {
	d.seq++
	return fmt.Sprintf("%s-n%d", d.tag, d.seq)
}

func (d *gdriver) record(op string, kv ...any) {
	m := map[string]any{"op": op}
	for i := 0; i+1 < len(kv); i += 2 {
		m[fmt.Sprint(kv[i])] = kv[i+1]
	}
	d.Log = append(d.Log, m)
	if len(d.Log) > 400 {
		d.Log = d.Log[len(d.Log)-400:]
	}
}

// sendNode sends node points; applies them to the model when accepted.
func (d *gdriver) sendNode(id string, pts data.Points) (string, error) {
	e, err := vlib.SendAck(d.nc, vlib.NodeSubj(id), pts)
	d.record("nodePoints", "id", id, "points", witnessPoints(pts), "reply", e, "err", fmt.Sprint(err))
	if err == nil && e == "" {
		d.g.ApplyNodePoints(id, pts)
	}
	return e, err
}

// sendEdge sends edge points; applies them to the model when accepted.
func (d *gdriver) sendEdge(id, parent string, pts data.Points) (string, error) {
	e, err := vlib.SendAck(d.nc, vlib.EdgeSubj(id, parent), pts)
	d.record("edgePoints", "id", id, "parent", parent, "points", witnessPoints(pts), "reply", e, "err", fmt.Sprint(err))
	if err == nil && e == "" {
		d.g.ApplyEdgePoints(id, parent, pts)
	}
	return e, err
}

func (d *gdriver) somePoints(n int) data.Points {
	types := []string{"description", "value", "a", "b", "units", "ab"}
	if d.r.Chance(0.15) {
		// point types other parts of the application give a meaning to
		types = []string{"pass", "email", "token", "disabled", "error", "active", "description", "value"}
	}
	keys := []string{"", "0", "1", "k"}
	pts := make(data.Points, n)
	for i := range pts {
		pts[i] = data.Point{Type: types[d.r.Intn(len(types))], Key: keys[d.r.Intn(len(keys))], Time: d.now(), Text: c01Str(d.r), Origin: []string{"", "user-x", d.tag}[d.r.Intn(3)]}
		if d.r.Chance(0.2) {
			pts[i].Data = make([]byte, 1+d.r.Intn(12))
			d.r.Read(pts[i].Data)
		}
		if d.r.Chance(0.1) {
			pts[i].Tombstone = []int{2, 3, 4, 7}[d.r.Intn(4)] // counts above 1 (odd = deleted, even = restored)
		}
		switch d.r.Intn(6) {
		case 0:
			pts[i].Value = math.Copysign(0, -1)
		case 1:
			pts[i].Value = 0
		default:
			pts[i].Value = d.r.Float()
			if d.Finite && math.IsInf(pts[i].Value, 0) {
				pts[i].Value = 1e300
			}
		}
	}
	// identities within one batch are made distinct so that "accepted" has one meaning
	seen := map[[2]string]bool{}
	out := pts[:0]
	for _, p := range pts {
		k := p.Key
		if k == "" {
			k = "0"
		}
		if !seen[[2]string{p.Type, k}] {
			seen[[2]string{p.Type, k}] = true
			out = append(out, p)
		}
	}
	return out
}

// newEdge returns the points of an edge-creating message: usually a tombstone-0 point plus the node
// type, sometimes the node type alone or with another edge point (the node type is all the store needs).
func (d *gdriver) newEdge(typ string) data.Points {
	switch d.r.Intn(8) {
	case 0:
		return data.Points{{Type: data.PointTypeNodeType, Text: typ}}
	case 1:
		return data.Points{{Type: data.PointTypeNodeType, Text: typ}, {Type: "sortOrder", Time: d.now(), Value: float64(d.r.Intn(9))}}
	default:
		return data.Points{{Type: data.PointTypeTombstone, Time: d.now(), Value: 0}, {Type: data.PointTypeNodeType, Text: typ}}
	}
}

// create makes a new node of type typ under parent. pointsFirst sends node
// points before the first edge.
func (d *gdriver) create(parent, typ string, pointsFirst bool) (string, error) {
	id := d.newID()
	if len(d.Made) > 0 && d.r.Chance(0.06) {
		// an id that differs from an existing one only in the case of its letters: another node altogether
		if twin := strings.ToUpper(d.Made[d.r.Intn(len(d.Made))]); !d.twins[twin] && twin != strings.ToLower(twin) {
			if d.twins == nil {
				d.twins = map[string]bool{}
			}
			d.twins[twin] = true
			id = twin
		}
	}
	edge := d.newEdge(typ)
	if pointsFirst {
		if e, err := d.sendNode(id, d.somePoints(1+d.r.Intn(3))); err != nil || e != "" {
			return id, fmt.Errorf("create %s: node points refused: %v %s", id, err, e)
		}
	}
	if e, err := d.sendEdge(id, parent, edge); err != nil || e != "" {
		return id, fmt.Errorf("create %s under %s: edge refused: %v %s", id, parent, err, e)
	}
	if !pointsFirst && d.r.Chance(0.7) {
		if e, err := d.sendNode(id, d.somePoints(1+d.r.Intn(3))); err != nil || e != "" {
			return id, fmt.Errorf("create %s: node points refused: %v %s", id, err, e)
		}
	}
	d.Made = append(d.Made, id)
	return id, nil
}

// pickNode returns a random node created by the driver ("" if none).
func (d *gdriver) pickNode() string {
	if len(d.Made) == 0 {
		return ""
	}
	return d.Made[d.r.Intn(len(d.Made))]
}

// pickEdge returns a random placement of a driver-made node.
func (d *gdriver) pickEdge() (parent, id string, ok bool) {
	id = d.pickNode()
	if id == "" {
		return "", "", false
	}
	ps := d.g.Parents(id, true)
	if len(ps) == 0 {
		return "", "", false
	}
	return ps[d.r.Intn(len(ps))], id, true
}

// randomLegalOp performs one legal random operation; returns a label.
func (d *gdriver) randomLegalOp() (string, error) {
	pick := d.r.Intn(100)
	switch {
	case pick < 22 || len(d.Made) < 2:
		parent := d.g.Root
		if len(d.Made) > 0 && d.r.Chance(0.7) {
			parent = d.pickNode()
		}
		typ := []string{"group", "group", "variable", "user", "tnode"}[d.r.Intn(5)]
		_, err := d.create(parent, typ, d.r.Chance(0.3))
		return "create", err
	case pick < 45:
		id := d.pickNode()
		e, err := d.sendNode(id, d.somePoints(1+d.r.Intn(4)))
		if err == nil && e != "" {
			err = fmt.Errorf("legal node write refused: %s", e)
		}
		return "nodePoints", err
	case pick < 55: // stale or duplicate node write
		id := d.pickNode()
		var pts data.Points
		for _, p := range d.g.NodeP[id] {
			q := p
			if d.r.Chance(0.5) {
				q.Time = q.Time.Add(-time.Duration(1+d.r.Intn(1000)) * time.Nanosecond)
				q.Text = "stale"
			}
			pts = append(pts, q)
			if len(pts) >= 3 {
				break
			}
		}
		if len(pts) == 0 {
			return "stale-skip", nil
		}
		e, err := vlib.SendAck(d.nc, vlib.NodeSubj(id), pts)
		d.record("staleNodePoints", "id", id, "points", witnessPoints(pts), "reply", e)
		if err == nil && e != "" {
			err = fmt.Errorf("stale node write refused: %s", e)
		}
		// model unchanged: stale points lose, exact duplicates change nothing
		return "staleNodePoints", err
	case pick < 67: // edge point update (role etc.)
		parent, id, ok := d.pickEdge()
		if !ok {
			return "skip", nil
		}
		pts := data.Points{{Type: []string{"role", "sortOrder", "a"}[d.r.Intn(3)], Key: []string{"", "0", "x"}[d.r.Intn(3)], Time: d.now(), Value: d.r.Float(), Text: c01Str(d.r)}}
		e, err := d.sendEdge(id, parent, pts)
		if err == nil && e != "" {
			err = fmt.Errorf("legal edge write refused: %s", e)
		}
		return "edgePoints", err
	case pick < 77: // delete / undelete
		parent, id, ok := d.pickEdge()
		if !ok {
			return "skip", nil
		}
		v := 1.0
		if d.g.Deleted(parent, id) {
			v = 0
		}
		e, err := d.sendEdge(id, parent, data.Points{{Type: data.PointTypeTombstone, Time: d.now(), Value: v}})
		if err == nil && e != "" {
			err = fmt.Errorf("tombstone write refused: %s", e)
		}
		if v == 1 {
			return "delete", err
		}
		return "undelete", err
	case pick < 92: // mirror (possibly above a populated subtree, possibly making a diamond)
		id := d.pickNode()
		np := d.g.Root
		if d.r.Chance(0.8) {
			np = d.pickNode()
		}
		if d.g.HasEdge(np, id) || d.g.WouldCycle(id, np) {
			return "mirror-skip", nil
		}
		e, err := d.sendEdge(id, np, d.newEdge(d.g.Types[id]))
		if err == nil && e != "" {
			err = fmt.Errorf("legal mirror refused: %s", e)
		}
		return "mirror", err
	default: // move = mirror + delete old
		parent, id, ok := d.pickEdge()
		if !ok {
			return "skip", nil
		}
		np := d.pickNode()
		if np == "" || d.g.HasEdge(np, id) || d.g.WouldCycle(id, np) {
			return "move-skip", nil
		}
		e, err := d.sendEdge(id, np, d.newEdge(d.g.Types[id]))
		if err == nil && e == "" {
			e, err = d.sendEdge(id, parent, data.Points{{Type: data.PointTypeTombstone, Time: d.now(), Value: 1}})
		}
		if err == nil && e != "" {
			err = fmt.Errorf("legal move refused: %s", e)
		}
		return "move", err
	}
}

// buildWide makes hub <- n groups <- one node placed below every one of the groups (more than a thousand ways up
// from the node). It is built from the bottom up - the node is placed below groups that hang nowhere yet, the groups
// are attached to the hub afterwards - because every placement made the other way round costs the store a walk over
// all the ways up that exist already.
func buildWide(d *gdriver, root string, n int, nodeType string) (hub string, groups []string, p string, err error) {
	if hub, err = d.create(root, "group", false); err != nil {
		return
	}
	p = d.newID()
	edge := func(id, parent, typ string) error {
		e, err := d.sendEdge(id, parent, data.Points{{Type: data.PointTypeTombstone, Time: d.now()}, {Type: data.PointTypeNodeType, Text: typ}})
		if err == nil && e != "" {
			err = fmt.Errorf("edge %s below %s refused: %s", id, parent, e)
		}
		return err
	}
	for k := 0; k < n; k++ {
		g := d.newID()
		groups = append(groups, g)
		if err = edge(p, g, nodeType); err != nil {
			return
		}
	}
	d.Made = append(d.Made, p)
	for _, g := range groups {
		if err = edge(g, hub, "group"); err != nil {
			return
		}
		d.Made = append(d.Made, g)
	}
	return
}
