package checks

import (
	"bytes"
	"encoding/binary"
	"fmt"
	"math"
	"time"

	"github.com/nats-io/nats.go"
	"github.com/simpleiot/simpleiot/client"
	"github.com/simpleiot/simpleiot/data"

	"verifharness/internal/vlib"
)

func init() { Registry["C12"] = runC12 }

// wire-representable time range: 0001-01-01 .. 9999-12-31
const (
	wireMinSec = -62135596800
	wireMaxSec = 253402300799
)

func genWireTime(r *vlib.R) time.Time {
	switch r.Intn(8) {
	case 0:
		return time.Time{}
	case 1:
		return time.Unix(wireMaxSec, 999999999)
	case 2:
		return time.Unix(wireMinSec, int64(r.Intn(2)))
	case 3:
		return time.Unix(0, 0)
	case 4:
		return time.Unix(0, r.TimeNs())
	case 5:
		return time.Unix(int64(r.Intn(3))-1, int64(r.Intn(1000000000)))
	default:
		return time.Unix(wireMinSec+r.Int63n(wireMaxSec-wireMinSec), r.Int63n(1000000000))
	}
}

func genFloatBits(r *vlib.R) float64 {
	switch r.Intn(4) {
	case 0:
		// NaNs with payloads, quiet and signalling, both signs
		return math.Float64frombits(0x7ff0000000000000 | uint64(r.Int63())&0x000fffffffffffff | 1 | uint64(r.Intn(2))<<63)
	case 1:
		return math.Float64frombits(r.Uint64())
	default:
		return r.Float()
	}
}

// wireSpecials are valid UTF-8 strings made of code points that sanitising / re-encoding code tends to mangle
var wireSpecials = []string{"\uFFFD", "a\uFFFDb", "\uFFFD\uFFFD", "\x00", "a\x00b", "\uFEFF", "\U0010FFFF", "\u2028", "\u0085", "\x7f", "\u00a0", "\ud7ff\ue000"}

func wireStr(r *vlib.R) string {
	s := r.Str()
	if r.Chance(0.15) {
		sp := wireSpecials[r.Intn(len(wireSpecials))]
		switch r.Intn(3) {
		case 0:
			s = sp
		case 1:
			s += sp
		default:
			s = sp + s
		}
	}
	return s
}

func genWirePoint(r *vlib.R) data.Point {
	p := data.Point{
		Type: wireStr(r), Key: wireStr(r), Text: wireStr(r), Origin: wireStr(r),
		Value: genFloatBits(r), Time: genWireTime(r),
	}
	switch r.Intn(5) {
	case 0:
		p.Tombstone = math.MaxInt32
	case 1:
		p.Tombstone = r.Intn(5)
	case 2:
		p.Tombstone = r.Intn(math.MaxInt32)
	}
	switch r.Intn(4) {
	case 0:
		p.Data = []byte{}
	case 1:
		n := r.Intn(40)
		p.Data = make([]byte, n)
		r.Read(p.Data)
	case 2:
		p.Data = []byte{0}
	}
	return p
}

func pointFieldDiff(a, b data.Point) string {
	switch {
	case a.Type != b.Type:
		return "type"
	case a.Key != b.Key:
		return "key"
	case a.Text != b.Text:
		return "text"
	case a.Origin != b.Origin:
		return "origin"
	case math.Float64bits(a.Value) != math.Float64bits(b.Value):
		return "value-bits"
	case !a.Time.Equal(b.Time) || a.Time.Nanosecond() != b.Time.Nanosecond():
		return "time"
	case a.Tombstone != b.Tombstone:
		return "tombstone"
	case !bytes.Equal(a.Data, b.Data):
		return "data"
	}
	return ""
}

func pointsDiff(a, b data.Points) string {
	if len(a) != len(b) {
		return fmt.Sprintf("len %d!=%d", len(a), len(b))
	}
	for i := range a {
		if d := pointFieldDiff(a[i], b[i]); d != "" {
			return fmt.Sprintf("[%d].%s", i, d)
		}
	}
	return ""
}

type ptW struct {
	Type, Key, Text, Origin string
	ValueBits               string
	TimeSec                 int64
	TimeNsec                int
	Tombstone               int
	Data                    []byte
}

func witnessPoint(p data.Point) ptW {
	return ptW{p.Type, p.Key, p.Text, p.Origin, fmt.Sprintf("%016x", math.Float64bits(p.Value)),
		p.Time.Unix(), p.Time.Nanosecond(), p.Tombstone, p.Data}
}

func witnessPoints(ps data.Points) []ptW {
	out := make([]ptW, len(ps))
	for i, p := range ps {
		out[i] = witnessPoint(p)
	}
	return out
}

// minimal protobuf writer (the repo's pb package is internal)
func pbVarint(b []byte, v uint64) []byte {
	for v >= 0x80 {
		b = append(b, byte(v)|0x80)
		v >>= 7
	}
	return append(b, byte(v))
}

func pbBytesField(b []byte, field int, payload []byte) []byte {
	b = pbVarint(b, uint64(field)<<3|2)
	b = pbVarint(b, uint64(len(payload)))
	return append(b, payload...)
}

func mutateBytes(r *vlib.R, in []byte) []byte {
	b := append([]byte{}, in...)
	n := 1 + r.Intn(3)
	for i := 0; i < n; i++ {
		switch r.Intn(7) {
		case 0: // truncate
			if len(b) > 0 {
				b = b[:r.Intn(len(b))]
			}
		case 1: // flip bit
			if len(b) > 0 {
				b[r.Intn(len(b))] ^= 1 << uint(r.Intn(8))
			}
		case 2: // set byte
			if len(b) > 0 {
				b[r.Intn(len(b))] = []byte{0, 0xff, 0x80, 0x7f, 0x0a, 0x12, 0x1a}[r.Intn(7)]
			}
		case 3: // insert
			p := r.Intn(len(b) + 1)
			ins := make([]byte, 1+r.Intn(4))
			r.Read(ins)
			b = append(b[:p], append(ins, b[p:]...)...)
		case 4: // delete
			if len(b) > 0 {
				p := r.Intn(len(b))
				b = append(b[:p], b[p+1:]...)
			}
		case 5: // splice with itself
			if len(b) > 1 {
				p, q := r.Intn(len(b)), r.Intn(len(b))
				b = append(append([]byte{}, b[:p]...), b[q:]...)
			}
		case 6: // huge length varint
			p := r.Intn(len(b) + 1)
			ins := []byte{0xff, 0xff, 0xff, 0xff, 0x0f}
			b = append(b[:p], append(ins, b[p:]...)...)
		}
	}
	return b
}

func runC12(tier string, _ []string) int {
	c := vlib.NewCtx("C12", tier, "exploration")
	c.SetRule("round trips: PRNG points/nodes (lists of 0-5, 200 and 1000-20000 points; hostile strings, float bit patterns incl. NaN payloads, wire-range times, data nil/empty/random) through ToPb/PbDecodePoints, ToPb/PbDecodeNode, Nodes.ToPb/PbDecodeNodes, hand-wrapped NodeRequest/NodesRequest, the four bus message decoders (origin equal to the node / parent id in the subject included), high-rate payloads built from their documented layout (periods up to 2^32-1 ns, up to 600 samples: sample i must carry start + i x period), and serial points through SerialEncode / SerialDecode / PbDecodeSerialPoints with times at and around 0, 2^31, 2^32, 2^33 ns and anywhere in the first eight seconds after the epoch; 2-6 encodings (half of them above 4 KiB) made in a row from 12 goroutines and decoded only afterwards; distinct = (codec, count of points, field classes present). decoders: random bytes and mutations (truncate, flip, set, insert, delete, splice, huge varint) of valid encodings (incl. bare 17-20 byte serial frames of every documented subject) into all 9 decoders + 4 subject parsers, a known good message decoded again afterwards (must still be itself); distinct = (decoder, outcome class, input length bucket)")
	c.Assume("times limited to 0001..9999 (wire range); tombstone within int32 (wire type)")
	nRT := c.N(30000, 1500000)
	nDec := c.N(100000, 5000000)

	// ---- round trips
	for i := 0; i < nRT; i++ {
		r := vlib.NewR(c.Seed, "c12rt", i)
		np := r.Intn(6)
		if r.Chance(0.02) {
			np = 200
		}
		if i%997 == 5 {
			// thousands of points in one message (up to what fits the bus's payload limit)
			np = []int{1000, 4095, 4096, 4097, 5000, 10000, 16384, 20000}[(i/997)%8]
		}
		pts := make(data.Points, np)
		for j := range pts {
			pts[j] = genWirePoint(r)
		}
		c.Eval(1)
		func() {
			defer func() {
				if e := recover(); e != nil {
					c.Violate("wire:roundtrip-panic", fmt.Sprint("panic in round trip: ", e), witnessPoints(pts))
				}
			}()
			b, err := pts.ToPb()
			if err != nil {
				c.Violate("wire:points-encode-error", err.Error(), witnessPoints(pts))
				return
			}
			back, err := data.PbDecodePoints(b)
			if err != nil {
				c.Violate("wire:points-decode-error", err.Error(), witnessPoints(pts))
				return
			}
			if d := pointsDiff(pts, back); d != "" {
				f := d[len(d)-4:]
				if f == "data" {
					c.Violate("wire:point-data-dropped", "points round trip changed "+d, witnessPoints(pts))
				} else {
					c.Violate("wire:point-field-changed", "points round trip changed "+d, witnessPoints(pts))
				}
				return
			}
			cls := fmt.Sprintf("points n=%d", np)
			for _, p := range pts {
				if math.IsNaN(p.Value) {
					cls += " nan"
				}
				if len(p.Data) > 0 {
					cls += " data"
				}
				if p.Time.IsZero() {
					cls += " t0"
				}
			}
			c.Distinct(cls)

			// node round trips
			ne := data.NodeEdge{ID: wireStr(r), Type: wireStr(r), Parent: wireStr(r), Hash: r.Uint32(), Points: pts}
			ne.EdgePoints = make(data.Points, r.Intn(3))
			for j := range ne.EdgePoints {
				ne.EdgePoints[j] = genWirePoint(r)
			}
			cmp := func(codec string, got data.NodeEdge) {
				d := ""
				switch {
				case got.ID != ne.ID:
					d = "id"
				case got.Type != ne.Type:
					d = "type"
				case got.Parent != ne.Parent:
					d = "parent"
				case got.Hash != ne.Hash:
					d = "hash"
				default:
					if x := pointsDiff(ne.Points, got.Points); x != "" {
						d = "points" + x
					} else if x := pointsDiff(ne.EdgePoints, got.EdgePoints); x != "" {
						d = "edgePoints" + x
					}
				}
				if d != "" {
					sig := "wire:node-field-changed"
					if len(d) > 4 && d[len(d)-4:] == "data" {
						sig = "wire:point-data-dropped"
					}
					c.Violate(sig, codec+" round trip changed "+d, map[string]any{"id": ne.ID, "type": ne.Type, "parent": ne.Parent, "hash": ne.Hash, "points": witnessPoints(ne.Points), "edgePoints": witnessPoints(ne.EdgePoints)})
				} else {
					c.Distinct(fmt.Sprintf("%s np=%d nep=%d", codec, len(ne.Points), len(ne.EdgePoints)))
				}
			}
			nb, err := ne.ToPb()
			if err != nil {
				c.Violate("wire:node-encode-error", err.Error(), nil)
				return
			}
			got, err := data.PbDecodeNode(nb)
			if err != nil {
				c.Violate("wire:node-decode-error", err.Error(), nil)
				return
			}
			cmp("node", got)
			// a node list as the store returns it: the same id may appear several times (once per parent,
			// also nodes without id), each entry with its own points and edge points
			first := ne
			other := data.NodeEdge{ID: ne.ID, Type: ne.Type, Parent: wireStr(r), Hash: r.Uint32()}
			if r.Chance(0.5) {
				other.ID, first.ID = "", ""
			}
			other.Points = make(data.Points, r.Intn(3))
			for j := range other.Points {
				other.Points[j] = genWirePoint(r)
			}
			other.EdgePoints = make(data.Points, r.Intn(3))
			for j := range other.EdgePoints {
				other.EdgePoints[j] = genWirePoint(r)
			}
			nodes := data.Nodes{first, other, first}
			nsb, err := nodes.ToPb()
			if err != nil {
				c.Violate("wire:nodes-encode-error", err.Error(), nil)
				return
			}
			gots, err := data.PbDecodeNodes(nsb)
			if err != nil || len(gots) != 3 {
				c.Violate("wire:nodes-decode-error", fmt.Sprint(err, len(gots)), nil)
				return
			}
			for k, want := range nodes {
				g := gots[k]
				if g.ID != want.ID || g.Type != want.Type || g.Parent != want.Parent || g.Hash != want.Hash || pointsDiff(want.Points, g.Points) != "" || pointsDiff(want.EdgePoints, g.EdgePoints) != "" {
					c.Violate("wire:node-field-changed", fmt.Sprintf("nodes round trip: entry %d of a list in which entries share an id came back with other content (points %s, edge points %s)", k, pointsDiff(want.Points, g.Points), pointsDiff(want.EdgePoints, g.EdgePoints)), map[string]any{"id": want.ID, "points": witnessPoints(want.Points), "first_entry_points": witnessPoints(first.Points)})
					return
				}
			}
			// the bus message decoders (subject + payload) return the payload's points untouched, whatever the
			// relation between a point's origin and the ids in the subject
			if len(pts) > 0 {
				mid, mpar := "n"+r.Ident(4), "p"+r.Ident(4)
				mp := append(data.Points{}, pts...)
				mp[r.Intn(len(mp))].Origin = []string{mid, mpar, "", "other"}[r.Intn(4)]
				mb, _ := mp.ToPb()
				id1, got1, err1 := client.DecodeNodePointsMsg(&nats.Msg{Subject: "p." + mid, Data: mb})
				id2, par2, got2, err2 := client.DecodeEdgePointsMsg(&nats.Msg{Subject: "p." + mid + "." + mpar, Data: mb})
				up3, id3, got3, err3 := client.DecodeUpNodePointsMsg(&nats.Msg{Subject: "up." + mpar + "." + mid, Data: mb})
				up4, id4, par4, got4, err4 := client.DecodeUpEdgePointsMsg(&nats.Msg{Subject: "up.x." + mid + "." + mpar, Data: mb})
				if err1 != nil || err2 != nil || err3 != nil || err4 != nil || id1 != mid || id2 != mid || par2 != mpar || up3 != mpar || id3 != mid || up4 != "x" || id4 != mid || par4 != mpar {
					c.Violate("wire:message-decoder-wrong-ids", fmt.Sprint("a well-formed bus message is decoded with wrong ids or an error: ", err1, err2, err3, err4, id1, id2, par2, up3, id3, up4, id4, par4), witnessPoints(mp))
					return
				}
				for which, got := range map[string]data.Points{"DecodeNodePointsMsg": got1, "DecodeEdgePointsMsg": got2, "DecodeUpNodePointsMsg": got3, "DecodeUpEdgePointsMsg": got4} {
					if d := pointsDiff(mp, got); d != "" {
						c.Violate("wire:point-field-changed", which+" changed "+d+" of a point on its way from the message to the caller", map[string]any{"node": mid, "parent": mpar, "points": witnessPoints(mp)})
						return
					}
				}
				c.Count("message_decoder_round_trips", 1)
			}
			// NodeRequest{node=1}, NodesRequest{nodes=1 repeated}
			req := pbBytesField(nil, 1, nb)
			got, err = data.PbDecodeNodeRequest(req)
			if err != nil {
				c.Violate("wire:noderequest-decode-error", err.Error(), nil)
				return
			}
			cmp("nodeRequest", got)
			reqs := pbBytesField(pbBytesField(nil, 1, nb), 1, nb)
			gots, err = data.PbDecodeNodesRequest(reqs)
			if err != nil || len(gots) != 2 {
				c.Violate("wire:nodesrequest-decode-error", fmt.Sprint(err, len(gots)), nil)
				return
			}
			cmp("nodesRequest", gots[0])
			if i < 3 {
				c.Sample(map[string]any{"kind": "roundtrip", "points": witnessPoints(pts)})
			}
		}()
	}

	// ---- serial points (the wire form used on serial links: value as float32, time as int64 ns): every time,
	// however close to the epoch or to a power of two, comes back as the same nanosecond
	nSer := c.N(6000, 200000)
	serTimes := []int64{0, 1, 2, 999, 1000, 1e6, 1e9, 1e9 + 1, 4e9, 1 << 31, 1<<31 - 1, 1<<32 - 1, 1 << 32, 1<<32 + 1, 1 << 33, -1, -1e9, -(1 << 32), 1 << 53, math.MaxInt64, math.MinInt64 + 1}
	for i := 0; i < nSer && !vlib.Aborted(); i++ {
		r := vlib.NewR(c.Seed, "c12serial", i)
		pts := make(data.Points, 1+r.Intn(3))
		for j := range pts {
			pts[j] = genSerialPoint(r)
			switch r.Intn(4) {
			case 0:
				pts[j].Time = time.Unix(0, serTimes[(i+j)%len(serTimes)])
			case 1: // anywhere in the first seconds after the epoch
				pts[j].Time = time.Unix(0, r.Int63n(1<<33))
			}
		}
		c.Eval(1)
		func() {
			defer func() {
				if e := recover(); e != nil {
					c.Violate("wire:roundtrip-panic", fmt.Sprint("panic in serial point round trip: ", e), witnessPoints(pts))
				}
			}()
			pk, err := client.SerialEncode(byte(i), "p.abcd", pts)
			if err != nil {
				c.Violate("wire:points-encode-error", "SerialEncode: "+err.Error(), witnessPoints(pts))
				return
			}
			_, _, payload, err := client.SerialDecode(pk)
			if err != nil {
				c.Violate("wire:points-decode-error", "SerialDecode of a packet just built: "+err.Error(), witnessPoints(pts))
				return
			}
			back, err := data.PbDecodeSerialPoints(payload)
			if err != nil || len(back) != len(pts) {
				c.Violate("wire:points-decode-error", fmt.Sprintf("PbDecodeSerialPoints: %v (%d points for %d)", err, len(back), len(pts)), witnessPoints(pts))
				return
			}
			for j := range pts {
				if d := serialPointDiff(pts[j], back[j]); d != "" {
					c.Violate("wire:point-field-changed", fmt.Sprintf("serial point round trip changed %s of point %d: sent t=%d ns, got t=%d ns", d, j, pts[j].Time.UnixNano(), back[j].Time.UnixNano()), witnessPoints(pts))
					return
				}
			}
			c.Count("serial_point_round_trips", 1)
		}()
	}

	// ---- high-rate payloads (docs / code comment: type[16] key[16] start uint64 ns, period uint32 ns, float32
	// samples): sample i carries the time start + i*period, to the nanosecond, however long the block lasts
	nHr := c.N(3000, 60000)
	for i := 0; i < nHr && !vlib.Aborted(); i++ {
		r := vlib.NewR(c.Seed, "c12hr", i)
		typ, key := r.Ident(1+r.Intn(16)), ""
		if r.Chance(0.6) {
			key = r.Ident(1 + r.Intn(16))
		}
		start := int64(1600000000e9) + r.Int63n(4e17)
		if r.Chance(0.1) {
			start = []int64{1, 1 << 32, 1<<32 - 1, 1 << 62}[r.Intn(4)]
		}
		period := []uint32{0, 1, 1000, 1e6, 10e6, 50e6, 1e9, 2e9, 1<<32 - 1, uint32(r.Uint32())}[r.Intn(10)]
		n := 1 + r.Intn(8)
		if r.Chance(0.3) {
			n = 100 + r.Intn(500)
		}
		pay := make([]byte, 44+4*n)
		copy(pay[0:16], typ)
		copy(pay[16:32], key)
		binary.LittleEndian.PutUint64(pay[32:40], uint64(start))
		binary.LittleEndian.PutUint32(pay[40:44], period)
		vals := make([]float32, n)
		for j := range vals {
			vals[j] = math.Float32frombits(r.Uint32())
			binary.LittleEndian.PutUint32(pay[44+4*j:], math.Float32bits(vals[j]))
		}
		c.Eval(1)
		func() {
			wit := map[string]any{"type": typ, "key": key, "start_ns": start, "period_ns": period, "samples": n}
			defer func() {
				if e := recover(); e != nil {
					c.Violate("decoder-panic:DecodeSerialHrPayload", fmt.Sprint("DecodeSerialHrPayload panicked on a well-formed payload: ", e), wit)
				}
			}()
			var got data.Points
			if err := data.DecodeSerialHrPayload(pay, func(p data.Point) { got = append(got, p) }); err != nil || len(got) != n {
				c.Violate("wire:points-decode-error", fmt.Sprintf("DecodeSerialHrPayload of a well-formed payload: %v, %d points for %d samples", err, len(got), n), wit)
				return
			}
			for j, p := range got {
				want := start + int64(j)*int64(period)
				bad := ""
				switch {
				case p.Time.UnixNano() != want:
					bad = fmt.Sprintf("time %d ns, the format says %d ns (start + %d x period)", p.Time.UnixNano(), want, j)
				case p.Type != typ || p.Key != key:
					bad = fmt.Sprintf("type/key %q/%q for %q/%q", p.Type, p.Key, typ, key)
				case math.Float32bits(float32(p.Value)) != math.Float32bits(vals[j]) && !(vals[j] != vals[j] && p.Value != p.Value):
					bad = fmt.Sprintf("value %v for %v", p.Value, vals[j])
				}
				if bad != "" {
					wit["sample"] = j
					c.Violate("wire:point-field-changed", fmt.Sprintf("high-rate payload, sample %d of %d: %s", j, n, bad), wit)
					return
				}
			}
			c.Count("high_rate_payloads_checked", 1)
		}()
	}

	// ---- decoder totality
	type dec struct {
		name string
		f    func([]byte) error
	}
	hrCount := 0
	decs := []dec{
		{"PbDecodePoints", func(b []byte) error { _, e := data.PbDecodePoints(b); return e }},
		{"PbDecodeNode", func(b []byte) error { _, e := data.PbDecodeNode(b); return e }},
		{"PbDecodeNodes", func(b []byte) error { _, e := data.PbDecodeNodes(b); return e }},
		{"PbDecodeNodeRequest", func(b []byte) error { _, e := data.PbDecodeNodeRequest(b); return e }},
		{"PbDecodeNodesRequest", func(b []byte) error { _, e := data.PbDecodeNodesRequest(b); return e }},
		{"PbDecodeSerialPoints", func(b []byte) error { _, e := data.PbDecodeSerialPoints(b); return e }},
		{"DecodeSerialHrPayload", func(b []byte) error {
			return data.DecodeSerialHrPayload(b, func(data.Point) { hrCount++ })
		}},
		{"SerialDecode", func(b []byte) error { _, _, _, e := client.SerialDecode(b); return e }},
		{"DecodeNodePointsMsg", func(b []byte) error {
			_, _, e := client.DecodeNodePointsMsg(&nats.Msg{Subject: subjectFrom(b), Data: b})
			return e
		}},
		{"DecodeEdgePointsMsg", func(b []byte) error {
			_, _, _, e := client.DecodeEdgePointsMsg(&nats.Msg{Subject: subjectFrom(b), Data: b})
			return e
		}},
		{"DecodeUpNodePointsMsg", func(b []byte) error {
			_, _, _, e := client.DecodeUpNodePointsMsg(&nats.Msg{Subject: subjectFrom(b), Data: b})
			return e
		}},
		{"DecodeUpEdgePointsMsg", func(b []byte) error {
			_, _, _, _, e := client.DecodeUpEdgePointsMsg(&nats.Msg{Subject: subjectFrom(b), Data: b})
			return e
		}},
	}
	// ---- encodings produced one after the other (also from several goroutines) and decoded later:
	// each must still be the encoding of its own value (a sender may hold several messages before
	// publishing them; large batches included)
	nQ := c.N(300, 6000)
	vlib.Parallel(nQ, 0, func(i int) {
		r := vlib.NewR(c.Seed, "c12queue", i)
		n := 2 + r.Intn(5)
		type enc struct {
			pts data.Points
			b   []byte
			nb  []byte
		}
		var q []enc
		for k := 0; k < n; k++ {
			np := 1 + r.Intn(5)
			big := r.Chance(0.5)
			if big {
				np = 40 + r.Intn(200) // well above 4 KiB on the wire
			}
			e := enc{pts: make(data.Points, np)}
			for j := range e.pts {
				e.pts[j] = genWirePoint(r)
			}
			var err error
			if e.b, err = e.pts.ToPb(); err != nil {
				c.Violate("wire:points-encode-error", err.Error(), witnessPoints(e.pts))
				return
			}
			ne := data.NodeEdge{ID: fmt.Sprint("q", k), Type: "t", Parent: "p", Points: e.pts}
			if e.nb, err = ne.ToPb(); err != nil {
				c.Violate("wire:node-encode-error", err.Error(), witnessPoints(e.pts))
				return
			}
			q = append(q, e)
		}
		for k, e := range q {
			c.Eval(2)
			back, err := data.PbDecodePoints(e.b)
			d := ""
			if err == nil {
				d = pointsDiff(e.pts, back)
			}
			if err != nil || d != "" {
				c.Violate("wire:encoding-changed-after-later-encode", fmt.Sprintf("encoding %d of %d made in a row (%d points, %d bytes) no longer decodes to its points: %v %s", k+1, n, len(e.pts), len(e.b), err, d), map[string]any{"case": i, "seed": c.Seed, "index": k, "points": len(e.pts)})
				return
			}
			nd, err := data.PbDecodeNode(e.nb)
			if err == nil {
				d = pointsDiff(e.pts, nd.Points)
			}
			if err != nil || d != "" || nd.ID != fmt.Sprint("q", k) {
				c.Violate("wire:encoding-changed-after-later-encode", fmt.Sprintf("node encoding %d of %d made in a row no longer decodes to its node: %v %s id=%q", k+1, n, err, d, nd.ID), map[string]any{"case": i, "seed": c.Seed, "index": k})
				return
			}
		}
		c.Count("encodings_made_in_a_row_checked", int64(2*n))
	})
	// seeds of valid encodings
	var valid [][]byte
	// serial frames of every documented subject with 0..3 bytes behind the 17-byte header (a log frame
	// has no checksum: 17 bytes are a complete log frame with an empty text)
	for _, subj := range []string{"log", "ack", "phr", "p.abcd", "p.abcd.efgh", ""} {
		for extra := 0; extra <= 3; extra++ {
			f := make([]byte, 17+extra)
			f[0] = byte(extra)
			copy(f[1:], subj)
			for j := 0; j < extra; j++ {
				f[17+j] = []byte{0, 'x', 0xff}[(j+extra)%3]
			}
			valid = append(valid, f)
		}
	}
	for i := 0; i < 64; i++ {
		r := vlib.NewR(c.Seed, "c12valid", i)
		pts := make(data.Points, r.Intn(4))
		for j := range pts {
			pts[j] = genWirePoint(r)
		}
		b, _ := pts.ToPb()
		valid = append(valid, b)
		ne := data.NodeEdge{ID: r.Str(), Type: r.Str(), Parent: r.Str(), Hash: r.Uint32(), Points: pts, EdgePoints: pts}
		nb, _ := ne.ToPb()
		valid = append(valid, nb, pbBytesField(nil, 1, nb), pbBytesField(pbBytesField(nil, 2, []byte("err")), 1, nb))
		nsb, _ := (&data.Nodes{ne, ne}).ToPb()
		valid = append(valid, nsb)
		if sp, err := client.SerialEncode(byte(i), "p.abcd", pts); err == nil {
			valid = append(valid, sp)
		}
		hr := make([]byte, 44+4*r.Intn(5))
		r.Read(hr)
		valid = append(valid, hr)
	}
	valid = append(valid, []byte{}, nil, pbBytesField(nil, 2, []byte("document not found")), pbBytesField(nil, 2, []byte("x")),
		pbBytesField(nil, 1, nil), pbBytesField(nil, 1, pbBytesField(nil, 3, nil)), pbBytesField(nil, 1, pbBytesField(nil, 5, []byte{0x08, 0xff, 0xff, 0xff, 0xff, 0xff, 0xff, 0xff, 0xff, 0x7f})))
	canary := data.Points{{Type: "canary", Key: "k", Time: time.Unix(1700000000, 5), Value: 42.5, Text: "text", Origin: "o", Tombstone: 2, Data: []byte{1, 2}}, {Type: "second", Time: time.Unix(1700000001, 0), Value: -1}}
	canaryPts, _ := canary.ToPb()
	canaryNE := data.NodeEdge{ID: "canary", Type: "t", Parent: "p", Points: canary}
	canaryNode, _ := canaryNE.ToPb()
	for i := 0; i < nDec; i++ {
		r := vlib.NewR(c.Seed, "c12dec", i)
		var in []byte
		switch {
		case i < len(valid):
			in = valid[i]
		case r.Chance(0.25):
			in = make([]byte, r.Intn(80))
			r.Read(in)
		default:
			in = mutateBytes(r, valid[r.Intn(len(valid))])
		}
		// after the hostile input has been through the decoders, a known good message must still decode
		// to exactly its own content (nothing of a refused message may stay behind in a decoder)
		for _, d := range decs {
			c.Eval(1)
			func() {
				defer func() {
					if e := recover(); e != nil {
						c.Violate("decoder-panic:"+d.name, fmt.Sprintf("%s panicked on %d bytes: %v", d.name, len(in), e), map[string]any{"decoder": d.name, "input": in})
					}
				}()
				err := d.f(in)
				lb := len(in)
				switch {
				case lb == 0:
				case lb < 8:
					lb = 1
				case lb < 64:
					lb = 8
				default:
					lb = 64
				}
				c.Distinct(fmt.Sprintf("%s err=%v len~%d", d.name, err != nil, lb))
			}()
		}
		if i%8 == 0 || i < len(valid) {
			for k := 0; k < 3; k++ { // a pool may hold several objects: ask a few times
				back, err := data.PbDecodePoints(canaryPts)
				d := ""
				if err == nil {
					d = pointsDiff(canary, back)
				}
				nd, nerr := data.PbDecodeNode(canaryNode)
				if nerr == nil && d == "" {
					d = pointsDiff(canary, nd.Points)
				}
				if err != nil || nerr != nil || d != "" || nd.ID != "canary" {
					c.Violate("wire:valid-message-decodes-wrong-after-refused-input", fmt.Sprintf("after a hostile input (%d bytes) a valid message no longer decodes to its own content: %v %v %s", len(in), err, nerr, d), map[string]any{"hostile_input": in})
					return c.Finish()
				}
			}
			c.Count("canary_decodes_after_hostile_input", 1)
		}
		if i < 2 {
			c.Sample(map[string]any{"kind": "decoder-input", "bytes": in})
		}
	}
	c.Count("hr_points_decoded", int64(hrCount))
	return c.Finish()
}

func subjectFrom(b []byte) string {
	subs := []string{"", "p", "p.", "p.a", "p.a.b", "up.a", "up.a.b", "up.a.b.c", "up.a.b.c.d", "...", "p..", "up", ".", "p.a.b.c.d.e.f"}
	if len(b) == 0 {
		return subs[0]
	}
	return subs[int(b[0])%len(subs)]
}
