package checks

import (
	"bytes"
	"errors"
	"fmt"
	"io"

	"github.com/simpleiot/simpleiot/client"

	"verifharness/internal/vlib"
)

func init() { Registry["C16"] = runC16 }

// scriptDev is an io.ReadWriteCloser whose Read hands out a byte stream in
// scripted chunks and whose Write records what the wrapper emits.
type scriptDev struct {
	stream []byte
	cuts   []int // chunk lengths; after they are used up, the rest in one chunk
	pos    int
	ci     int
	wrote  bytes.Buffer
}

func (d *scriptDev) Read(b []byte) (int, error) {
	if d.pos >= len(d.stream) {
		return 0, io.EOF
	}
	n := len(d.stream) - d.pos
	if d.ci < len(d.cuts) {
		n = d.cuts[d.ci]
	}
	if n > len(b) {
		// device has more than the caller's buffer: hand over what fits, keep the rest of the chunk
		if d.ci < len(d.cuts) {
			d.cuts[d.ci] -= len(b)
		}
		n = len(b)
	} else {
		d.ci++
	}
	if n > len(d.stream)-d.pos {
		n = len(d.stream) - d.pos
	}
	copy(b, d.stream[d.pos:d.pos+n])
	d.pos += n
	return n, nil
}
func (d *scriptDev) Write(b []byte) (int, error) { return d.wrote.Write(b) }
func (d *scriptDev) Close() error                { return nil }

type cobsOut struct {
	Data []byte
	Err  string
}

// runCobs feeds stream (cut as given) through a fresh CobsWrapper and returns everything Read returned.
// cobsCallerBuf is the length of the buffer the caller hands to Read, as a multiple of the wrapper's maximum
// message length (0 = the same length, what the serial client uses).
func runCobs(stream []byte, cuts []int, maxLen int) (outs []cobsOut, hung bool) {
	return runCobsBuf(stream, cuts, maxLen, maxLen)
}

func runCobsBuf(stream []byte, cuts []int, maxLen, bufLen int) (outs []cobsOut, hung bool) {
	defer func() {
		if e := recover(); e != nil {
			outs = append(outs, cobsOut{Err: fmt.Sprint("PANIC: ", e)})
			hung = true
		}
	}()
	dev := &scriptDev{stream: stream, cuts: append([]int{}, cuts...)}
	cw := client.NewCobsWrapper(dev, maxLen)
	limit := 2*len(stream) + 50
	for i := 0; ; i++ {
		if i > limit {
			return outs, true
		}
		buf := make([]byte, bufLen)
		n, err := cw.Read(buf)
		if err == io.EOF {
			return outs, false
		}
		if err != nil {
			outs = append(outs, cobsOut{Err: err.Error()})
			continue
		}
		if n == 0 {
			continue // io.Reader's "nothing happened"; the serial client skips these too
		}
		outs = append(outs, cobsOut{Data: append([]byte{}, buf[:n]...)})
	}
}

// encodeFrames writes the frames through CobsWrapper.Write and returns the
// stream plus, per frame, the index of its leading and trailing delimiter.
func encodeFrames(frames [][]byte, maxLen int) (stream []byte, lead, trail []int, err error) {
	dev := &scriptDev{}
	cw := client.NewCobsWrapper(dev, maxLen)
	for _, f := range frames {
		before := dev.wrote.Len()
		if _, e := cw.Write(f); e != nil {
			return nil, nil, nil, e
		}
		w := dev.wrote.Bytes()[before:]
		if len(w) < 3 || w[0] != 0 || w[len(w)-1] != 0 || bytes.IndexByte(w[1:len(w)-1], 0) >= 0 {
			return nil, nil, nil, errors.New("written frame is not 00 <non-zero bytes> 00")
		}
		lead = append(lead, before)
		trail = append(trail, dev.wrote.Len()-1)
	}
	return append([]byte{}, dev.wrote.Bytes()...), lead, trail, nil
}

func cobsMaxPayload(m int) int { return m - 4 - m/254 }

var cobsLens = []int{1, 2, 3, 5, 17, 253, 254, 255, 256, 507, 508, 509}

func genFrames(r *vlib.R, maxLen int, short bool) [][]byte {
	n := 1 + r.Intn(8)
	if short {
		n = 1 + r.Intn(3)
	}
	maxP := cobsMaxPayload(maxLen)
	frames := make([][]byte, 0, n)
	seen := map[string]bool{}
	for len(frames) < n {
		var l int
		atLimit := false
		switch {
		case short:
			l = 1 + r.Intn(6)
		case r.Chance(0.4):
			l = cobsLens[r.Intn(len(cobsLens))]
		case r.Chance(0.15):
			l = maxP - r.Intn(2)
		case r.Chance(0.15):
			l = maxLen // cut down below to the longest frame whose encoded form still fits the read buffer
			atLimit = true
		default:
			l = 1 + r.Intn(40)
		}
		if l > maxP && !atLimit {
			l = maxP
		}
		f := make([]byte, l)
		switch r.Intn(7) {
		case 6: // zero-free runs of a length at the block boundary (251..256), each followed by a zero
			run := 251 + r.Intn(6)
			for i, left := 0, run; i < len(f); i++ {
				if left == 0 {
					f[i], left = 0, 251+r.Intn(6)
					if r.Chance(0.5) {
						left = run
					}
				} else {
					f[i] = byte(1 + r.Intn(255))
					left--
				}
			}
			if l >= 3 && r.Chance(0.5) {
				// the header below must not break the first run: the frame starts with it anyway
				f[l-1] = 0
			}
		case 0: // all zero
		case 1:
			for i := range f {
				f[i] = 0xff
			}
		case 2: // zero-free
			for i := range f {
				f[i] = byte(1 + r.Intn(255))
			}
		case 3: // 254-byte zero-free runs separated by zeros
			for i := range f {
				if i%255 == 254 {
					f[i] = 0
				} else {
					f[i] = byte(1 + r.Intn(255))
				}
			}
		case 4: // sparse zeros
			for i := range f {
				if r.Chance(0.1) {
					f[i] = 0
				} else {
					f[i] = byte(1 + r.Intn(255))
				}
			}
		default:
			r.Read(f)
		}
		if atLimit {
			f[0], f[1] = byte(0xA0+len(frames)), 0x5A // (the header first: it is part of what is measured)
			// exactly at the limit: what Write produces for it (without the leading delimiter, with the trailing
			// one) is maxLen bytes, or maxLen-1 where no frame comes to maxLen
			for len(f) > 3 {
				st, _, _, err := encodeFrames([][]byte{f}, maxLen)
				if err == nil && len(st)-1 <= maxLen {
					break
				}
				f = f[:len(f)-1]
			}
			l = len(f)
		}
		// make frames pairwise distinct: unique header where it fits
		if atLimit {
		} else if l >= 3 {
			f[0], f[1] = byte(0xA0+len(frames)), byte(l)
		} else if r.Chance(0.5) {
			f[0] = byte(0xA0 + len(frames))
		}
		if seen[string(f)] {
			continue
		}
		seen[string(f)] = true
		frames = append(frames, f)
	}
	return frames
}

func checkClean(c *vlib.Ctx, frames [][]byte, stream []byte, cuts []int, maxLen int, cls string) bool {
	if len(cuts) <= 1 {
		// a caller whose buffer is larger than the longest message (the device then hands over a whole burst
		// of frames in one read)
		for _, bl := range []int{2*maxLen + 7, 8 * maxLen} {
			if !checkCleanBuf(c, frames, stream, cuts, maxLen, bl, cls+" bigbuf") {
				return false
			}
		}
	}
	return checkCleanBuf(c, frames, stream, cuts, maxLen, maxLen, cls)
}

func checkCleanBuf(c *vlib.Ctx, frames [][]byte, stream []byte, cuts []int, maxLen, bufLen int, cls string) bool {
	outs, hung := runCobsBuf(stream, cuts, maxLen, bufLen)
	c.Eval(1)
	wit := map[string]any{"frames": frames, "stream": stream, "cuts": cuts, "maxLen": maxLen, "caller_buffer": bufLen, "outputs": outs}
	if hung {
		c.Violate("cobs:no-progress", "Read made no progress on an undamaged stream", wit)
		return false
	}
	bad := ""
	if len(outs) != len(frames) {
		bad = fmt.Sprintf("%d outputs for %d frames", len(outs), len(frames))
	} else {
		for i := range frames {
			if outs[i].Err != "" {
				bad = fmt.Sprintf("output %d is error %q", i, outs[i].Err)
				break
			}
			if !bytes.Equal(outs[i].Data, frames[i]) {
				bad = fmt.Sprintf("output %d differs from frame %d", i, i)
				break
			}
		}
	}
	if bad != "" {
		sig := "cobs:chunking-loses-frames"
		if len(cuts) == 0 {
			sig = "cobs:single-read-loses-frames"
			if len(frames) == 1 {
				sig = "cobs:single-frame-roundtrip"
			}
		}
		c.Violate(sig, "undamaged stream: "+bad, wit)
		return false
	}
	c.Distinct(cls)
	return true
}

type damage struct {
	Kind string
	Pos  int
	Val  byte
	Run  int
}

// applyDamage returns the damaged stream and the half-open damaged region in it.
func applyDamage(s []byte, d damage) (out []byte, from, to int) {
	switch d.Kind {
	case "flip", "zero", "nonzero":
		out = append([]byte{}, s...)
		switch d.Kind {
		case "flip":
			out[d.Pos] ^= d.Val
		case "zero":
			out[d.Pos] = 0
		case "nonzero":
			out[d.Pos] = d.Val
		}
		return out, d.Pos, d.Pos + 1
	case "delete":
		out = append(append([]byte{}, s[:d.Pos]...), s[d.Pos+1:]...)
		return out, d.Pos, d.Pos
	case "insert":
		out = append(append(append([]byte{}, s[:d.Pos]...), d.Val), s[d.Pos:]...)
		return out, d.Pos, d.Pos + 1
	case "garbage":
		g := make([]byte, d.Run)
		for i := range g {
			g[i] = byte(1 + (i*7+int(d.Val))%255)
		}
		out = append(append(append([]byte{}, s[:d.Pos]...), g...), s[d.Pos:]...)
		return out, d.Pos, d.Pos + d.Run
	}
	panic("bad damage")
}

func checkDamaged(c *vlib.Ctx, frames [][]byte, stream []byte, lead, trail []int, d damage, cuts []int, maxLen int) bool {
	ds, from, to := applyDamage(stream, d)
	if bytes.Equal(ds, stream) {
		return true // the "damage" changed nothing
	}
	shift := len(ds) - len(stream)
	// first delimiter after the damage
	z := -1
	for i := to; i < len(ds); i++ {
		if ds[i] == 0 {
			z = i
			break
		}
	}
	var prefix, suffix [][]byte
	for i := range frames {
		if trail[i] < from {
			prefix = append(prefix, frames[i])
		} else if z >= 0 && lead[i] >= from && lead[i]+shift >= z {
			suffix = append(suffix, frames[i])
		}
	}
	outs, hung := runCobs(ds, cuts, maxLen)
	c.Eval(1)
	wit := map[string]any{"frames": frames, "damaged_stream": ds, "damage": d, "cuts": cuts, "maxLen": maxLen, "outputs": outs,
		"required_prefix": len(prefix), "required_suffix": len(suffix)}
	if hung {
		c.Violate("cobs:no-progress", "Read made no progress after damage "+d.Kind, wit)
		return false
	}
	if len(outs) < len(prefix)+len(suffix) {
		c.Violate("cobs:damage-loses-untouched-frames", fmt.Sprintf("%d outputs, %d untouched frames required (%s)", len(outs), len(prefix)+len(suffix), d.Kind), wit)
		return false
	}
	for i, f := range prefix {
		if outs[i].Err != "" || !bytes.Equal(outs[i].Data, f) {
			c.Violate("cobs:damage-loses-untouched-frames", fmt.Sprintf("frame %d lies wholly before the damage but output %d is not it (%s)", i, i, d.Kind), wit)
			return false
		}
	}
	// suffix must be the exact tail
	tail := outs[len(outs)-len(suffix):]
	for i, f := range suffix {
		if tail[i].Err != "" || !bytes.Equal(tail[i].Data, f) {
			c.Violate("cobs:damage-loses-untouched-frames", fmt.Sprintf("frame starting after the delimiter that follows the damage is not delivered intact (suffix index %d, %s)", i, d.Kind), wit)
			return false
		}
	}
	c.Distinct(fmt.Sprintf("damage %s prefix=%d suffix=%d slack=%d cuts=%d", d.Kind, len(prefix), len(suffix), len(outs)-len(prefix)-len(suffix), len(cuts)))
	c.Count("damaged_executions", 1)
	c.Count("suffix_frames_required", int64(len(suffix)))
	return true
}

func randCuts(r *vlib.R, n int) []int {
	var cuts []int
	switch r.Intn(4) {
	case 0: // byte at a time
		for i := 0; i < n; i++ {
			cuts = append(cuts, 1)
		}
	case 1: // small chunks
		for rem := n; rem > 0; {
			k := 1 + r.Intn(4)
			cuts = append(cuts, k)
			rem -= k
		}
	default:
		for rem := n; rem > 0; {
			k := 1 + r.Intn(n)
			cuts = append(cuts, k)
			rem -= k
		}
	}
	return cuts
}

func runC16(tier string, _ []string) int {
	c := vlib.NewCtx("C16", tier, "exploration")
	c.SetRule("frames: 1..8 pairwise distinct frames, lengths from {1,2,3,5,17,253..256,507..509,max-1,max} and random, contents all-zero / all-0xFF / zero-free / 254-byte zero-free runs followed by 0x00 / sparse zeros / random, written through CobsWrapper.Write; segmentations: none, EVERY single cut and EVERY pair of cuts for short streams (exhaustive), random multi-cuts down to one byte per read for long ones; damage: flip bit, set 0, set non-zero, delete, insert (0 and non-zero), oversize garbage run, at EVERY position for short streams, sampled for long. Oracle: undamaged = exact sequence; damaged = exact prefix (frames ending before the damage) ++ anything ++ exact suffix (frames whose leading delimiter is at or after the first 0x00 following the damage). distinct = (class of frame lengths, number of cuts) / (damage kind, prefix, suffix, slack sizes)")
	c.Assume("zero-length frames are not generated: io.Reader's (0,nil) cannot be told from 'no frame' and the serial client skips such reads")
	c.Assume("maximum frame = maxMessageLength - 4 - maxMessageLength/254 payload bytes, read buffer = maxMessageLength (as client/serial.go allocates it)")
	nSeq := c.N(900, 30000)
	vlib.Parallel(nSeq, 0, func(i int) {
		r := vlib.NewR(c.Seed, "c16", i)
		short := i%3 == 0
		maxLen := []int{1024, 600, 300}[r.Intn(3)]
		if short {
			maxLen = 64
		}
		frames := genFrames(r, maxLen, short)
		if short && i%9 == 3 {
			// a burst: dozens of short frames, several times the maximum message length in all
			for len(frames) < 40+r.Intn(40) {
				more := genFrames(r, maxLen, true)
				for _, f := range more {
					if len(f) >= 3 {
						f[2] = byte(len(frames)) // keep them pairwise distinct
					}
					frames = append(frames, f)
				}
			}
		}
		stream, lead, trail, err := encodeFrames(frames, maxLen)
		if err != nil {
			c.Violate("cobs:write-format", err.Error(), map[string]any{"frames": frames})
			return
		}
		lcls := ""
		for _, f := range frames {
			switch {
			case len(f) < 254:
				lcls += "s"
			case len(f) == 254:
				lcls += "E"
			default:
				lcls += "L"
			}
		}
		if i < 3 {
			c.Sample(map[string]any{"frames": frames, "stream_len": len(stream), "maxLen": maxLen})
		}
		ok := checkClean(c, frames, stream, nil, maxLen, "clean nocut "+lcls)
		if !ok {
			return
		}
		n := len(stream)
		if short {
			// exhaustive single and double cuts
			for a := 1; a < n && ok; a++ {
				ok = checkClean(c, frames, stream, []int{a}, maxLen, "clean 1cut "+lcls)
				for b := a + 1; b < n && ok; b++ {
					ok = checkClean(c, frames, stream, []int{a, b - a}, maxLen, "clean 2cut "+lcls)
				}
			}
		} else {
			for k := 0; k < 40 && ok; k++ {
				cuts := randCuts(r, n)
				ok = checkClean(c, frames, stream, cuts, maxLen, fmt.Sprintf("clean %dcut %s", min(len(cuts), 9), lcls))
			}
			// cuts right at frame boundaries
			for k := range frames {
				for _, at := range []int{lead[k], lead[k] + 1, trail[k], trail[k] + 1} {
					if at > 0 && at < n && ok {
						ok = checkClean(c, frames, stream, []int{at}, maxLen, "clean boundarycut "+lcls)
					}
				}
			}
		}
		if !ok {
			return
		}
		// damage
		kinds := []string{"flip", "zero", "nonzero", "delete", "insert", "insert0", "garbage"}
		positions := []int{}
		if short {
			for p := 0; p < n; p++ {
				positions = append(positions, p)
			}
		} else {
			for k := 0; k < 24; k++ {
				positions = append(positions, r.Intn(n))
			}
			for k := range frames {
				positions = append(positions, lead[k], trail[k])
			}
		}
		for _, p := range positions {
			for _, k := range kinds {
				d := damage{Kind: k, Pos: p}
				switch k {
				case "flip":
					d.Val = 1 << uint(r.Intn(8))
				case "nonzero", "insert":
					d.Val = byte(1 + r.Intn(255))
				case "insert0":
					d.Kind, d.Val = "insert", 0
				case "garbage":
					d.Run, d.Val = maxLen+1+r.Intn(maxLen), byte(r.Intn(255))
				}
				var cuts []int
				if r.Chance(0.7) {
					cuts = randCuts(r, n+d.Run+1)
				}
				if !checkDamaged(c, frames, stream, lead, trail, d, cuts, maxLen) {
					return
				}
			}
		}
	})
	c.Require("damaged_executions", 100)
	c.Require("suffix_frames_required", 100)
	return c.Finish()
}

func min(a, b int) int {
	if a < b {
		return a
	}
	return b
}
