package checks

import (
	"bytes"
	"fmt"
	"math"
	"sync/atomic"
	"time"

	"github.com/simpleiot/simpleiot/client"
	"github.com/simpleiot/simpleiot/data"

	"verifharness/internal/vlib"
)

func init() { Registry["C17"] = runC17 }

func genSerialPoint(r *vlib.R) data.Point {
	p := data.Point{Type: r.Str(), Key: r.Str(), Text: r.Str(), Origin: r.Str(), Value: genFloatBits(r)}
	if r.Chance(0.15) {
		// NUL bytes at the edges and inside (legal in a Go string and in the protobuf encoding)
		nul := []string{"\x00", "cal\x00", "\x00cal", "a\x00b", "\x00\x00"}
		switch r.Intn(4) {
		case 0:
			p.Type = nul[r.Intn(len(nul))]
		case 1:
			p.Key = nul[r.Intn(len(nul))]
		case 2:
			p.Text = nul[r.Intn(len(nul))]
		default:
			p.Origin = nul[r.Intn(len(nul))]
		}
	}
	if r.Chance(0.12) {
		// point types the application gives a meaning to: on the wire they are points like any other
		p.Type = []string{"timeSync", "description", "tombstone", "nodeType", "value", "log", "error", "trigger", "active", "syncParent", "hrDest", "uptime", "maxMessageLength", "disabled", "period", "debug"}[r.Intn(16)]
	}
	if len(p.Text) > 40 {
		p.Text = p.Text[:40]
		for !validUTF8Prefix(p.Text) {
			p.Text = p.Text[:len(p.Text)-1]
		}
	}
	switch r.Intn(4) {
	case 0:
		p.Time = vlib.UnixNs(r.TimeNs())
	case 1:
		p.Time = vlib.UnixNs(int64(r.Intn(3)) - 1)
	default:
		p.Time = vlib.UnixNs(1600000000e9 + r.Int63n(4e17))
	}
	if r.Chance(0.3) {
		p.Tombstone = []int{1, 2, 3, math.MaxInt32}[r.Intn(4)]
	}
	if r.Chance(0.2) {
		p.Data = make([]byte, r.Intn(12))
		r.Read(p.Data)
	}
	return p
}

func validUTF8Prefix(s string) bool {
	for _, c := range s {
		if c == 0xFFFD {
			return false
		}
	}
	return true
}

func genSubject(r *vlib.R) string {
	id := func() string { return r.Ident(4 + r.Intn(3)) }
	switch r.Intn(6) {
	case 0:
		return ""
	case 1:
		return "p." + id()
	case 2:
		return "p." + id() + "." + id() // <= 2+6+1+6 = 15
	case 3:
		return "phr"
	case 4:
		return "ack"
	default:
		return "p." + r.Ident(14) // full 16 bytes
	}
}

func serialPointDiff(sent, got data.Point) string {
	want := sent
	want.Value = float64(float32(sent.Value))
	if math.IsNaN(want.Value) && math.IsNaN(got.Value) {
		got.Value, want.Value = 0, 0
	}
	if want.Time.UnixNano() != got.Time.UnixNano() {
		return "time"
	}
	want.Time, got.Time = got.Time, got.Time
	return pointFieldDiff(want, got)
}

func flipBit(b []byte, bit int) { b[bit/8] ^= 1 << uint(bit%8) } // LSB first: UART transmission order

func runC17(tier string, _ []string) int {
	c := vlib.NewCtx("C17", tier, "exploration")
	c.SetRule("packets: all 256 sequence numbers cycled, documented subjects (blank, p.<id>, p.<id>.<parent>, phr, ack; ids >= 4 chars as real ids are UUIDs; up to the full 16 bytes), 0..8 PRNG points (hostile strings, the point types the serial client itself uses - timeSync, log, syncParent ... -, float bit patterns, int64-ns times, data). Round trip checked per field (value at float32 precision, time by ns). Error patterns per packet, in UART bit order (LSB of each byte first): ALL single-bit flips, ALL two-bit flips (exhaustive; sampled 200000 pairs for packets > 120 bytes in quick), bursts of length 3..16 at ALL start positions with all interior patterns for length <= 10 and sampled interiors for 11..16 (thorough: exhaustive for packets <= 40 bytes). Monitor: SerialDecode returns no error AND (seq, subject, payload) differ from the original. In addition 2-8 packets are built in a row (in 12 goroutines at once) and decoded only afterwards: each must still be the packet that was built. distinct = (subject kind, number of points, error class)")
	c.Assume("log packets (no checksum by design) are excluded; bursts are runs of consecutive bits as transmitted on a UART (LSB first), the order in which the reflected CRC-16 sees them")
	nPk := c.N(60, 1500)
	var decodes, rejected, roundtrips int64
	vlib.Parallel(nPk, 0, func(i int) {
		r := vlib.NewR(c.Seed, "c17", i)
		seq := byte(i)
		if r.Chance(0.2) {
			seq = []byte{0, 255, 1, 128}[r.Intn(4)]
		}
		subj := genSubject(r)
		np := r.Intn(9)
		if i%7 == 0 {
			np = 0
		}
		pts := make(data.Points, np)
		for j := range pts {
			pts[j] = genSerialPoint(r)
		}
		wit := map[string]any{"case": i, "seq": seq, "subject": subj, "points": witnessPoints(pts)}
		pkt, err := client.SerialEncode(seq, subj, pts)
		if err != nil {
			c.Violate("serial:encode-error", err.Error(), wit)
			return
		}
		// ---- round trip
		c.Eval(1)
		atomic.AddInt64(&roundtrips, 1)
		s2, sub2, payload, err := client.SerialDecode(pkt)
		if err != nil {
			c.Violate("serial:decode-error", "SerialDecode(SerialEncode(x)) failed: "+err.Error(), wit)
			return
		}
		if s2 != seq || sub2 != subj {
			c.Violate("serial:header-changed", fmt.Sprintf("seq %d->%d subject %q->%q", seq, s2, subj, sub2), wit)
			return
		}
		back, err := data.PbDecodeSerialPoints(payload)
		if err != nil || len(back) != len(pts) {
			c.Violate("serial:payload-decode", fmt.Sprint("payload does not decode to the same number of points: ", err, len(back)), wit)
			return
		}
		for j := range pts {
			if d := serialPointDiff(pts[j], back[j]); d != "" {
				sig := "serial:point-field-changed"
				if d == "data" {
					sig = "serial:point-data-dropped"
				}
				c.Violate(sig, fmt.Sprintf("point %d field %s changed in the serial round trip", j, d), wit)
				return
			}
		}
		if i < 3 {
			c.Sample(map[string]any{"seq": seq, "subject": subj, "points": witnessPoints(pts), "packet_len": len(pkt)})
		}
		skind := subj
		if len(subj) > 3 {
			skind = fmt.Sprintf("p-len%d", len(subj))
		}
		// ---- corruption
		nbits := len(pkt) * 8
		buf := make([]byte, len(pkt))
		try := func(class string, mutate func(b []byte)) bool {
			copy(buf, pkt)
			mutate(buf)
			atomic.AddInt64(&decodes, 1)
			q, sb, pl, err := client.SerialDecode(buf)
			if err != nil {
				atomic.AddInt64(&rejected, 1)
				return true
			}
			if q == seq && sb == subj && bytes.Equal(pl, payload) {
				return true
			}
			w := map[string]any{"class": class, "original": append([]byte{}, pkt...), "corrupted": append([]byte{}, buf...), "seq": q, "subject": sb}
			sig := "serial:undetected-" + class
			if sb == "log" {
				sig = "serial:burst-turns-subject-into-log"
			}
			c.Violate(sig, "corrupted packet delivered with different content", w)
			return false
		}
		ok := true
		for b := 0; b < nbits && ok; b++ {
			ok = try("1bit", func(x []byte) { flipBit(x, b) })
		}
		c.Distinct(fmt.Sprintf("%s np=%d 1bit", skind, np))
		if len(pkt) <= 120 || c.Thorough() && len(pkt) <= 400 {
			for a := 0; a < nbits && ok; a++ {
				for b := a + 1; b < nbits && ok; b++ {
					ok = try("2bit", func(x []byte) { flipBit(x, a); flipBit(x, b) })
				}
			}
			c.Distinct(fmt.Sprintf("%s np=%d 2bit-exhaustive", skind, np))
		} else {
			for k := 0; k < 200000 && ok; k++ {
				a, b := r.Intn(nbits), r.Intn(nbits)
				if a != b {
					ok = try("2bit", func(x []byte) { flipBit(x, a); flipBit(x, b) })
				}
			}
			c.Distinct(fmt.Sprintf("%s np=%d 2bit-sampled", skind, np))
		}
		for l := 3; l <= 16 && ok; l++ {
			interior := l - 2
			exhaustive := l <= 10 || (c.Thorough() && len(pkt) <= 40)
			for start := 0; start+l <= nbits && ok; start++ {
				npat := 1 << uint(interior)
				if !exhaustive {
					npat = 64
				}
				for k := 0; k < npat && ok; k++ {
					pat := k
					if !exhaustive {
						pat = r.Intn(1 << uint(interior))
					}
					ok = try(fmt.Sprintf("burst%d", l), func(x []byte) {
						flipBit(x, start)
						flipBit(x, start+l-1)
						for m := 0; m < interior; m++ {
							if pat&(1<<uint(m)) != 0 {
								flipBit(x, start+1+m)
							}
						}
					})
				}
			}
			c.Distinct(fmt.Sprintf("%s burst%d exhaustive=%v", skind, l, exhaustive))
		}
	})
	// ---- packets built one after the other and used afterwards (a sender queues several packets, or
	// two senders build at the same time): every returned packet still is the packet that was built
	nQ := c.N(400, 6000)
	vlib.Parallel(nQ, 0, func(i int) {
		r := vlib.NewR(c.Seed, "c17queue", i)
		n := 2 + r.Intn(7)
		type built struct {
			seq  byte
			subj string
			pts  data.Points
			pkt  []byte
		}
		var q []built
		sameLen := r.Chance(0.5)
		first := genSubject(r)
		for k := 0; k < n; k++ {
			b := built{seq: byte(r.Intn(256)), subj: genSubject(r)}
			if sameLen {
				b.subj = first // equal lengths: an overwritten packet would still carry a valid checksum
			}
			np := r.Intn(4)
			if sameLen {
				np = 1
			}
			for j := 0; j < np; j++ {
				p := genSerialPoint(r)
				if sameLen {
					p = data.Point{Type: "v", Value: float64(k), Time: time.Unix(1700000000+int64(k), 0)}
				}
				b.pts = append(b.pts, p)
			}
			var err error
			if b.pkt, err = client.SerialEncode(b.seq, b.subj, b.pts); err != nil {
				c.Violate("serial:encode-error", err.Error(), map[string]any{"case": i})
				return
			}
			q = append(q, b)
		}
		for k, b := range q {
			c.Eval(1)
			wit := map[string]any{"case": i, "seed": c.Seed, "built_in_a_row": n, "index": k, "seq": b.seq, "subject": b.subj, "points": witnessPoints(b.pts)}
			s2, sub2, payload, err := client.SerialDecode(b.pkt)
			if err != nil {
				c.Violate("serial:packet-changed-after-later-encode", fmt.Sprintf("packet %d of %d built in a row no longer decodes: %v", k+1, n, err), wit)
				return
			}
			back, perr := data.PbDecodeSerialPoints(payload)
			bad := s2 != b.seq || sub2 != b.subj || perr != nil || len(back) != len(b.pts)
			for j := 0; !bad && j < len(back); j++ {
				bad = serialPointDiff(b.pts[j], back[j]) != ""
			}
			if bad {
				c.Violate("serial:packet-changed-after-later-encode", fmt.Sprintf("packet %d of %d built in a row decodes to other content (seq %d->%d, subject %q->%q)", k+1, n, b.seq, s2, b.subj, sub2), wit)
				return
			}
		}
		c.Count("packets_built_in_a_row_checked", int64(n))
	})
	c.Eval(int(decodes))
	c.Count("corrupted_packets_decoded", decodes)
	c.Count("corrupted_packets_rejected", rejected)
	c.Count("roundtrips", roundtrips)
	c.Require("corrupted_packets_rejected", 1000)

	// informational: the protocol-inherent corner (a 3-character subject within a burst of "log")
	if c.Thorough() {
		pkt, _ := client.SerialEncode(1, "lof", data.Points{{Type: "a", Value: 1}})
		x := append([]byte{}, pkt...)
		x[3] ^= 'f' ^ 'g'
		_, sb, _, err := client.SerialDecode(x)
		c.Extra("log_corner_probe", fmt.Sprintf("subject 'lof' with a 1-bit error in its third byte decodes as %q err=%v (not a documented subject; informational)", sb, err))
	}
	return c.Finish()
}
