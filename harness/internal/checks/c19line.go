package checks

import (
	"fmt"
	"io"
	"net"
	"sync"
	"time"

	"github.com/simpleiot/simpleiot/modbus"
	"github.com/simpleiot/simpleiot/respreader"

	"verifharness/internal/vlib"
)

// A serial line: two byte streams (no packet boundaries), read through respreader the way node/modbus.go and the
// repository's own RTU test do it. What the far end writes can be delayed, so that replies arrive after the
// client has given up on them.

type lineBuf struct {
	mu     sync.Mutex
	cond   *sync.Cond
	buf    []byte
	closed bool
	delay  time.Duration // applies to the next delayN writes
	delayN int
	seq    int // writes are delivered in the order they were made
	next   int
}

func newLineBuf() *lineBuf { b := &lineBuf{}; b.cond = sync.NewCond(&b.mu); return b }

type lineEnd struct{ rx, tx *lineBuf }

func (e *lineEnd) Read(b []byte) (int, error) {
	p := e.rx
	p.mu.Lock()
	defer p.mu.Unlock()
	for len(p.buf) == 0 {
		if p.closed {
			return 0, io.EOF
		}
		p.cond.Wait()
	}
	n := copy(b, p.buf)
	p.buf = p.buf[n:]
	return n, nil
}

func (e *lineEnd) Write(b []byte) (int, error) {
	p := e.tx
	data := append([]byte{}, b...)
	p.mu.Lock()
	if p.closed {
		p.mu.Unlock()
		return 0, io.ErrClosedPipe
	}
	my := p.seq
	p.seq++
	d := time.Duration(0)
	if p.delayN > 0 {
		p.delayN--
		d = p.delay
	}
	p.mu.Unlock()
	deliver := func() {
		p.mu.Lock()
		for p.next != my && !p.closed {
			p.cond.Wait()
		}
		p.buf = append(p.buf, data...)
		p.next++
		p.cond.Broadcast()
		p.mu.Unlock()
	}
	if d > 0 {
		go func() { time.Sleep(d); deliver() }()
	} else {
		deliver()
	}
	return len(b), nil
}

func (e *lineEnd) Close() error {
	for _, p := range []*lineBuf{e.rx, e.tx} {
		p.mu.Lock()
		p.closed = true
		p.cond.Broadcast()
		p.mu.Unlock()
	}
	return nil
}

// c19SerialLine runs client and server over such a line. Returns "" or what went wrong (signature, text).
func c19SerialLine(c *vlib.Ctx) (sig, what string) {
	r := vlib.NewR(c.Seed, "c19line", 0)
	const unit = 7
	a2b, b2a := newLineBuf(), newLineBuf()
	cEnd, sEnd := &lineEnd{rx: b2a, tx: a2b}, &lineEnd{rx: a2b, tx: b2a}
	regs := &modbus.Regs{}
	regs.AddReg(0, 130)
	hold := map[int]uint16{}
	for a := 0; a < 130; a++ {
		v := uint16(1000 + a*3 + r.Intn(3))
		_ = regs.WriteReg(a, v)
		hold[a] = v
	}
	portS := respreader.NewReadWriteCloser(sEnd, 2*time.Second, 5*time.Millisecond)
	srv := modbus.NewServer(unit, modbus.NewRTU(portS), regs, 0)
	go srv.Listen(func(error) {}, func() {}, func() {})
	portC := respreader.NewReadWriteCloser(cEnd, 100*time.Millisecond, 20*time.Millisecond)
	cl := modbus.NewClient(modbus.NewRTU(portC), 0)
	defer func() {
		_ = cl.Close()
		go func() { _ = srv.Close() }()
	}()
	read := func(addr, n int) ([]uint16, error) { return cl.ReadHoldingRegs(unit, uint16(addr), uint16(n)) }
	check := func(when string, addr, n int) (string, string) {
		v, err := read(addr, n)
		c.Eval(1)
		if err != nil {
			return "modbus-e2e:valid-read-failed:serial-line", fmt.Sprintf("%s: ReadHoldingRegs(%d, %d) on a quiet serial line failed: %v", when, addr, n, err)
		}
		if len(v) != n {
			return "modbus-e2e:wrong-count:serial-line", fmt.Sprintf("%s: ReadHoldingRegs(%d, %d) returned %d values", when, addr, n, len(v))
		}
		for i := range v {
			if v[i] != hold[addr+i] {
				return "modbus-e2e:wrong-values:serial-line", fmt.Sprintf("%s: ReadHoldingRegs(%d, %d): register %d: got %d, server holds %d", when, addr, n, addr+i, v[i], hold[addr+i])
			}
		}
		return "", ""
	}
	// plain traffic first: reads of 1..90 registers, writes read back
	for k := 0; k < 25; k++ {
		n := 1 + r.Intn(90)
		addr := r.Intn(130 - n)
		if s, w := check("plain traffic", addr, n); s != "" {
			return s, w
		}
		if k%5 == 4 {
			a, v := r.Intn(130), uint16(20000+k)
			if err := cl.WriteSingleReg(unit, uint16(a), v); err != nil {
				return "modbus-e2e:valid-write-failed:serial-line", fmt.Sprintf("WriteSingleReg(%d, %d) on a quiet serial line failed: %v", a, v, err)
			}
			hold[a] = v
			if sv, _ := regs.ReadReg(a); sv != v {
				return "modbus-e2e:acknowledged-write-not-applied:serial-line", fmt.Sprintf("WriteSingleReg(%d, %d) acknowledged, the server holds %d", a, v, sv)
			}
		}
	}
	c.Count("serial_line_plain_calls", 25)
	setDelay := func(d time.Duration, n int) {
		b2a.mu.Lock()
		b2a.delay, b2a.delayN = d, n
		b2a.mu.Unlock()
	}
	for round := 0; round < 3; round++ {
		// (1) two requests in a row are given up on; both replies arrive later, while nothing is being asked.
		// The line is then quiet for longer than the client waits for anything: the next request gets its own answer
		a1, a2, a3 := r.Intn(40), 40+r.Intn(40), 80+r.Intn(40)
		setDelay(400*time.Millisecond, 2)
		_, e1 := read(a1, 1)
		_, e2 := read(a2, 1)
		c.Eval(2)
		if e1 == nil || e2 == nil {
			return "modbus-e2e:withheld-reply-succeeded", fmt.Sprintf("reads whose replies were still on their way returned success (%v, %v)", e1, e2)
		}
		time.Sleep(800 * time.Millisecond)
		if s, w := check(fmt.Sprintf("after two late replies (registers %d and %d) and 0.8 s of silence", a1, a2), a3, 1); s != "" {
			if s == "modbus-e2e:wrong-values:serial-line" {
				s = "modbus-e2e:late-reply-accepted:serial-line"
			}
			return s, w
		}
		c.Count("serial_line_two_late_replies", 1)
		// (2) one late reply that is longer than one chunk of the reader (100 registers = 205 bytes)
		setDelay(400*time.Millisecond, 1)
		if _, e := read(r.Intn(20), 100); e == nil {
			return "modbus-e2e:withheld-reply-succeeded", "a read whose reply was still on its way returned success"
		}
		time.Sleep(800 * time.Millisecond)
		if s, w := check("after one late reply of 205 bytes and 0.8 s of silence", r.Intn(120), 1+r.Intn(8)); s != "" {
			if s == "modbus-e2e:wrong-values:serial-line" {
				s = "modbus-e2e:late-reply-accepted:serial-line"
			}
			return s, w
		}
		c.Count("serial_line_long_late_reply", 1)
	}
	return "", ""
}

// c19ServerReplaced: several connections are open to a TCP server; the server is closed and another one, with
// another register file, takes its place on the same port (what node/modbus.go does when a bus is reconfigured).
// Whatever an old connection returns afterwards must be what the running server holds - an error is fine, an
// answer from the server that was closed is not.
func c19ServerReplaced(c *vlib.Ctx, round int) (sig, what string) {
	r := vlib.NewR(c.Seed, "c19replaced", round)
	port, release := vlib.FreePort()
	defer release()
	mk := func(base int) *modbus.Regs {
		regs := &modbus.Regs{}
		regs.AddReg(0, 8)
		for a := 0; a < 8; a++ {
			_ = regs.WriteReg(a, uint16(base+a))
		}
		return regs
	}
	regsA, regsB := mk(1000), mk(2000)
	tsA, err := modbus.NewTCPServer(1, 8, fmt.Sprint(port), regsA, 0)
	if err != nil {
		c.Inconclusive("server replaced: TCP server does not start: " + err.Error())
		return "", ""
	}
	go tsA.Listen(func(error) {}, func() {}, func() {})
	nConn := 2 + r.Intn(3)
	var cls []*modbus.Client
	defer func() {
		for _, cl := range cls {
			_ = cl.Close()
		}
	}()
	for k := 0; k < nConn; k++ {
		conn, err := net.DialTimeout("tcp", fmt.Sprintf("127.0.0.1:%d", port), 5*time.Second)
		if err != nil {
			c.Inconclusive("server replaced: connect: " + err.Error())
			go func() { _ = tsA.Close() }()
			return "", ""
		}
		cl := modbus.NewClient(modbus.NewTCP(conn, time.Second, modbus.TransportClient), 0)
		cls = append(cls, cl)
		a := r.Intn(8)
		got, err := cl.ReadHoldingRegs(1, uint16(a), 1)
		c.Eval(1)
		if err != nil || len(got) != 1 || got[0] != uint16(1000+a) {
			go func() { _ = tsA.Close() }()
			return "modbus-e2e:wrong-values:several-connections", fmt.Sprintf("connection %d of %d to one TCP server: read of register %d answered %v %v, the server holds %d", k+1, nConn, a, got, err, 1000+a)
		}
	}
	closed := make(chan struct{})
	go func() { _ = tsA.Close(); close(closed) }()
	select {
	case <-closed:
	case <-time.After(10 * time.Second):
		c.Inconclusive("server replaced: TCPServer.Close did not return within 10 s")
		return "", ""
	}
	var tsB *modbus.TCPServer
	for try := 0; try < 50; try++ {
		if tsB, err = modbus.NewTCPServer(1, 8, fmt.Sprint(port), regsB, 0); err == nil {
			break
		}
		time.Sleep(100 * time.Millisecond)
	}
	if err != nil {
		c.Inconclusive("server replaced: the second server does not start on the port: " + err.Error())
		return "", ""
	}
	go tsB.Listen(func(error) {}, func() {}, func() {})
	defer func() { go func() { _ = tsB.Close() }() }()
	for k, cl := range cls {
		a := r.Intn(8)
		got, err := cl.ReadHoldingRegs(1, uint16(a), 1)
		c.Eval(1)
		if err == nil && (len(got) != 1 || got[0] != uint16(2000+a)) {
			return "modbus-e2e:answer-from-a-server-that-was-closed", fmt.Sprintf("connection %d of %d, opened before the TCP server was closed and replaced: read of register %d returned %v without error; the running server holds %d (the closed one held %d)", k+1, nConn, a, got, 2000+a, 1000+a)
		}
		v := uint16(3000 + k)
		if err := cl.WriteSingleReg(1, uint16(a), v); err == nil {
			if sv, _ := regsB.ReadReg(a); sv != v {
				return "modbus-e2e:acknowledged-write-not-applied:server-replaced", fmt.Sprintf("connection %d of %d, opened before the TCP server was replaced: write of %d to register %d was acknowledged, the running server holds %d", k+1, nConn, v, a, sv)
			}
			_ = regsB.WriteReg(a, uint16(2000+a))
		}
	}
	conn, err := net.DialTimeout("tcp", fmt.Sprintf("127.0.0.1:%d", port), 5*time.Second)
	if err != nil {
		return "modbus-e2e:new-server-not-reachable", "after the replacement a new connection is refused: " + err.Error()
	}
	cl := modbus.NewClient(modbus.NewTCP(conn, time.Second, modbus.TransportClient), 0)
	defer cl.Close()
	a := r.Intn(8)
	got, err := cl.ReadHoldingRegs(1, uint16(a), 1)
	c.Eval(1)
	if err != nil || len(got) != 1 || got[0] != uint16(2000+a) {
		return "modbus-e2e:wrong-values:several-connections", fmt.Sprintf("new connection after the replacement: read of register %d answered %v %v, the server holds %d", a, got, err, 2000+a)
	}
	c.Count("tcp_servers_replaced_under_open_connections", 1)
	return "", ""
}
