package checks

import (
	"fmt"
	"github.com/simpleiot/simpleiot/client"
	"github.com/simpleiot/simpleiot/data"
	"os"
	"time"

	"github.com/nats-io/nats.go"

	"verifharness/internal/vlib"
)

func init() { Registry["C03"] = runC03 }

// hashCheck walks the tree and compares every reported hash with the
// from-scratch Merkle hash. A mismatch is confirmed on a second identical walk.
// localHashCheck compares the stored hash of one placement with the hash of its own points and the stored
// hashes of its children (deleted ones included). It tells nothing about the levels below.
func localHashCheck(nc *nats.Conn, parent, id string) (string, error) {
	// (the instance writes to its own root once a minute: a mismatch counts when two reads in a row show the
	// same thing)
	prev := ""
	for try := 0; try < 4; try++ {
		bad, err := localHashCheckOnce(nc, parent, id)
		if err != nil || bad == "" {
			return bad, err
		}
		if bad == prev {
			return bad, nil
		}
		prev = bad
		time.Sleep(300 * time.Millisecond)
	}
	return "", nil
}

func localHashCheckOnce(nc *nats.Conn, parent, id string) (string, error) {
	ns, err := client.GetNodes(nc, parent, id, "", true)
	if err != nil {
		return "", err
	}
	if len(ns) != 1 {
		return "", fmt.Errorf("placement %s/%s: %d nodes returned", parent, id, len(ns))
	}
	kids, err := client.GetNodes(nc, id, "all", "", true)
	if err != nil {
		return "", err
	}
	var h uint32
	for _, pt := range ns[0].Points {
		h ^= vlib.RefCRC(pt)
	}
	for _, pt := range ns[0].EdgePoints {
		h ^= vlib.RefCRC(pt)
	}
	for _, k := range kids {
		h ^= k.Hash
	}
	if h != ns[0].Hash {
		return fmt.Sprintf("placement %s/%s: stored hash %08x, hash of its points and of the stored hashes of its %d children %08x", parent, id, ns[0].Hash, len(kids), h), nil
	}
	return "", nil
}

func hashCheck(nc *nats.Conn) (mismatch string, walk map[string]vlib.Placement, err error) {
	for attempt := 0; attempt < 3; attempt++ {
		w, err := vlib.Walk(nc)
		if err != nil {
			return "", nil, err
		}
		ref := vlib.RefHashes(w)
		bad := ""
		for k, p := range w {
			if p.Hash != ref[k] {
				bad = fmt.Sprintf("placement %s: stored hash %08x, Merkle hash of its content %08x", k, p.Hash, ref[k])
				break
			}
		}
		if bad == "" {
			return "", w, nil
		}
		// confirm on an identical second walk (guards against a write landing between replies)
		w2, err := vlib.Walk(nc)
		if err != nil {
			return "", nil, err
		}
		if vlib.DumpString(w) == vlib.DumpString(w2) {
			return bad, w, nil
		}
	}
	return "", nil, fmt.Errorf("%w: tree did not hold still for two walks", vlib.ErrInfra)
}

func adminReq(nc *nats.Conn, subj string) (string, error) {
	m, err := nc.Request(subj, nil, 60*time.Second)
	if err != nil {
		return "", err
	}
	return string(m.Data), nil
}

func runC03(tier string, _ []string) int {
	c := vlib.NewCtx("C03", tier, "exploration")
	vlib.SetPortBlock(3)
	c.SetRule("per case a fresh instance and a PRNG history of 20-120 acknowledged graph operations (every eighth history on top of a chain 35-120 nodes deep) (create edge-first / points-first, node-point writes incl. -0.0, stale and duplicate writes, edge-point updates, delete, undelete, mirror incl. above populated subtrees and diamonds, move); after every operation (every 5th in thorough) the whole tree is walked and every placement's reported hash is compared with a from-scratch Merkle hash computed from the walk's points only; at the end admin.storeVerify must not complain and admin.storeMaint must change no hash. One more instance holds a node placed below 1030-1080 parents (built from the bottom up); hashes are compared after the graph is built, after a child is created below it, after point writes to it and to the child and after one placement is deleted. distinct = (operation kind, graph features present: mirror/diamond/deleted edge/points-first)")
	c.Assume("the from-scratch oracle subsumes 'equal content gives equal hash' and 'a change reaches every ancestor': both histories/ancestors are compared with the same function of content")
	c.Assume("one instance per history, harness is the only writer; node manager start-up writes are awaited (DESIGN 1.6)")
	nHist := c.N(40, 600)
	every := c.N(1, 5)
	// ---- scale: one node placed below more than a thousand parents (a shared device shown in every group);
	// a change below it has a thousand ways up, and the root's hash must follow every time
	wide := make(chan struct{})
	go func() {
		defer close(wide)
		r := vlib.NewR(c.Seed, "c03wide", 0)
		in, err := vlib.StartInstance(vlib.InstCfg{ID: "c03-wide"})
		if err != nil {
			c.Inconclusive(err.Error())
			return
		}
		defer in.Stop()
		nc, err := in.Connect()
		if err != nil {
			c.Inconclusive(err.Error())
			return
		}
		d := newGdriver(r, nc, in.RootID, "wd")
		nG := 1030 + r.Intn(50)
		if v := os.Getenv("VERIF_WIDE_N"); v != "" {
			fmt.Sscan(v, &nG)
		}
		hub, groups, x, err := buildWide(d, in.RootID, nG, "variable")
		if err != nil {
			c.Violate("store:legal-write-refused", "wide graph: "+err.Error(), map[string]any{"stage": "wide", "seed": c.Seed})
			return
		}
		check := func(after string) bool {
			// (a walk of this graph takes a minute: the stored hash of a placement is compared with the hash of
			// its own points and the stored hashes of its children - at the root, at the hub, at the node under
			// its first, last and some other parents, and at those parents; the whole walk is left to the
			// thorough tier)
			bad := ""
			var err error
			if tier == "thorough" && after == "after one of its placements was deleted" {
				var w map[string]vlib.Placement
				bad, w, err = hashCheck(nc)
				c.Count("hash_comparisons", int64(len(w)))
			} else {
				places := [][2]string{{"root", in.RootID}, {in.RootID, hub}}
				for _, gi := range []int{0, len(groups) - 1, len(groups) / 2, r.Intn(len(groups)), r.Intn(len(groups))} {
					places = append(places, [2]string{hub, groups[gi]}, [2]string{groups[gi], x})
				}
				for _, pl := range places {
					var b string
					if b, err = localHashCheck(nc, pl[0], pl[1]); err != nil || b != "" {
						bad = b
						break
					}
					c.Count("hash_comparisons", 1)
				}
			}
			if err != nil {
				c.Inconclusive("wide: read failed: " + err.Error())
				return false
			}
			if bad != "" {
				c.Violate("hash:stored-differs-from-merkle:node-below-a-thousand-parents", fmt.Sprintf("one node below %d parents, %s: %s", nG, after, bad), map[string]any{"stage": "wide", "seed": c.Seed, "parents": nG, "last_ops": d.Log[max0(len(d.Log)-6):]})
				return false
			}
			return true
		}
		if !check("after the graph was built") {
			return
		}
		y, err := d.create(x, "variable", false)
		if err != nil || !check("after a child was created below it") {
			return
		}
		if e, err := d.sendNode(y, d.somePoints(2)); err != nil || e != "" || !check("after a point write to its child") {
			return
		}
		if e, err := d.sendNode(x, d.somePoints(2)); err != nil || e != "" || !check("after a point write to the node") {
			return
		}
		if e, err := d.sendEdge(x, groups[nG-7], data.Points{{Type: data.PointTypeTombstone, Time: d.now(), Value: 1}}); err != nil || e != "" || !check("after one of its placements was deleted") {
			return
		}
		c.Count("wide_graphs_checked", 1)
		c.Distinct(fmt.Sprintf("one node below %d parents", nG/100*100))
	}()
	defer func() { <-wide }()
	vlib.Parallel(nHist, 6, func(i int) {
		r := vlib.NewR(c.Seed, "c03", i)
		in, err := vlib.StartInstance(vlib.InstCfg{ID: fmt.Sprintf("c03-%d", i)})
		if err != nil {
			c.Inconclusive(err.Error())
			return
		}
		defer in.Stop()
		nc, err := in.Connect()
		if err != nil {
			c.Inconclusive(err.Error())
			return
		}
		d := newGdriver(r, nc, in.RootID, fmt.Sprintf("h%d", i))
		if i%8 == 7 {
			// a very deep branch (legal, rare): a change at the bottom has to travel 35-120 edges up
			depth := 35 + r.Intn(c.N(40, 90))
			parent := in.RootID
			for q := 0; q < depth; q++ {
				id, err := d.create(parent, "group", q%7 == 3)
				if err != nil {
					c.Violate("store:legal-write-refused", err.Error(), map[string]any{"case": i, "seed": c.Seed, "ops": d.Log})
					return
				}
				parent = id
			}
			c.Count("deep_chains_built", 1)
		}
		nOps := 20 + r.Intn(c.N(60, 100))
		feat := map[string]bool{}
		for k := 0; k < nOps; k++ {
			op, err := d.randomLegalOp()
			c.Eval(1)
			if err != nil {
				if err == vlib.ErrNoReply {
					c.Violate("store:write-not-answered", "a legal operation got no reply", map[string]any{"case": i, "seed": c.Seed, "ops": d.Log})
				} else {
					c.Violate("store:legal-write-refused", err.Error(), map[string]any{"case": i, "seed": c.Seed, "ops": d.Log})
				}
				return
			}
			feat[op] = true
			if k%every != 0 && k != nOps-1 {
				continue
			}
			bad, w, err := hashCheck(nc)
			if err != nil {
				c.Inconclusive(fmt.Sprintf("case %d: walk failed: %v", i, err))
				return
			}
			c.Count("hash_comparisons", int64(len(w)))
			if bad != "" {
				sig := "hash:stored-differs-from-merkle:after-" + op
				c.Violate(sig, fmt.Sprintf("after op %d (%s): %s", k, op, bad), map[string]any{"case": i, "seed": c.Seed, "ops": d.Log, "tree": vlib.DumpString(w)})
				return
			}
			c.Distinct(fmt.Sprintf("%s placements~%d", op, len(w)/5*5))
		}
		// verification finds nothing to repair
		before, err := vlib.Walk(nc)
		if err != nil {
			c.Inconclusive(err.Error())
			return
		}
		if s, err := adminReq(nc, "admin.storeVerify"); err != nil || s != "" {
			c.Violate("hash:storeVerify-complains", fmt.Sprintf("admin.storeVerify: %q %v", s, err), map[string]any{"case": i, "ops": d.Log})
			return
		}
		if s, err := adminReq(nc, "admin.storeMaint"); err != nil || s != "" {
			c.Violate("hash:storeMaint-complains", fmt.Sprintf("admin.storeMaint: %q %v", s, err), map[string]any{"case": i, "ops": d.Log})
			return
		}
		after, err := vlib.Walk(nc)
		if err != nil {
			c.Inconclusive(err.Error())
			return
		}
		if vlib.DumpString(before) != vlib.DumpString(after) {
			c.Violate("hash:storeMaint-repaired-something", "admin.storeMaint changed the tree: verification found something to repair", map[string]any{"case": i, "ops": d.Log, "before": vlib.DumpString(before), "after": vlib.DumpString(after)})
			return
		}
		c.Count("maint_noop_checks", 1)
		if i < 2 {
			c.Sample(map[string]any{"case": i, "ops": d.Log[:min(len(d.Log), 12)], "placements": len(after)})
		}
	})
	<-wide
	c.Require("hash_comparisons", 500)
	c.Require("maint_noop_checks", 5)
	return c.Finish()
}

func max0(a int) int {
	if a < 0 {
		return 0
	}
	return a
}
