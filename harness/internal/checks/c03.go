package checks

import (
	"fmt"
	"time"

	"github.com/nats-io/nats.go"

	"verifharness/internal/vlib"
)

func init() { Registry["C03"] = runC03 }

// hashCheck walks the tree and compares every reported hash with the
// from-scratch Merkle hash. A mismatch is confirmed on a second identical walk.
func hashCheck(nc *nats.Conn) (mismatch string, walk map[string]vlib.Placement, err error) {
	for attempt := 0; attempt < 3; attempt++ {
		w, err := vlib.Walk(nc)
		if err != nil {
			return "", nil, err
		}
		ref := vlib.RefHashes(w)
		bad := ""
		for k, p := range w {
			if p.Hash != ref[k] {
				bad = fmt.Sprintf("placement %s: stored hash %08x, Merkle hash of its content %08x", k, p.Hash, ref[k])
				break
			}
		}
		if bad == "" {
			return "", w, nil
		}
		// confirm on an identical second walk (guards against a write landing between replies)
		w2, err := vlib.Walk(nc)
		if err != nil {
			return "", nil, err
		}
		if vlib.DumpString(w) == vlib.DumpString(w2) {
			return bad, w, nil
		}
	}
	return "", nil, fmt.Errorf("%w: tree did not hold still for two walks", vlib.ErrInfra)
}

func adminReq(nc *nats.Conn, subj string) (string, error) {
	m, err := nc.Request(subj, nil, 60*time.Second)
	if err != nil {
		return "", err
	}
	return string(m.Data), nil
}

func runC03(tier string, _ []string) int {
	c := vlib.NewCtx("C03", tier, "exploration")
	vlib.SetPortBlock(3)
	c.SetRule("per case a fresh instance and a PRNG history of 20-120 acknowledged graph operations (every eighth history on top of a chain 35-120 nodes deep) (create edge-first / points-first, node-point writes incl. -0.0, stale and duplicate writes, edge-point updates, delete, undelete, mirror incl. above populated subtrees and diamonds, move); after every operation (every 5th in thorough) the whole tree is walked and every placement's reported hash is compared with a from-scratch Merkle hash computed from the walk's points only; at the end admin.storeVerify must not complain and admin.storeMaint must change no hash. distinct = (operation kind, graph features present: mirror/diamond/deleted edge/points-first)")
	c.Assume("the from-scratch oracle subsumes 'equal content gives equal hash' and 'a change reaches every ancestor': both histories/ancestors are compared with the same function of content")
	c.Assume("one instance per history, harness is the only writer; node manager start-up writes are awaited (DESIGN 1.6)")
	nHist := c.N(40, 600)
	every := c.N(1, 5)
	vlib.Parallel(nHist, 6, func(i int) {
		r := vlib.NewR(c.Seed, "c03", i)
		in, err := vlib.StartInstance(vlib.InstCfg{ID: fmt.Sprintf("c03-%d", i)})
		if err != nil {
			c.Inconclusive(err.Error())
			return
		}
		defer in.Stop()
		nc, err := in.Connect()
		if err != nil {
			c.Inconclusive(err.Error())
			return
		}
		d := newGdriver(r, nc, in.RootID, fmt.Sprintf("h%d", i))
		if i%8 == 7 {
			// a very deep branch (legal, rare): a change at the bottom has to travel 35-120 edges up
			depth := 35 + r.Intn(c.N(40, 90))
			parent := in.RootID
			for q := 0; q < depth; q++ {
				id, err := d.create(parent, "group", q%7 == 3)
				if err != nil {
					c.Violate("store:legal-write-refused", err.Error(), map[string]any{"case": i, "seed": c.Seed, "ops": d.Log})
					return
				}
				parent = id
			}
			c.Count("deep_chains_built", 1)
		}
		nOps := 20 + r.Intn(c.N(60, 100))
		feat := map[string]bool{}
		for k := 0; k < nOps; k++ {
			op, err := d.randomLegalOp()
			c.Eval(1)
			if err != nil {
				if err == vlib.ErrNoReply {
					c.Violate("store:write-not-answered", "a legal operation got no reply", map[string]any{"case": i, "seed": c.Seed, "ops": d.Log})
				} else {
					c.Violate("store:legal-write-refused", err.Error(), map[string]any{"case": i, "seed": c.Seed, "ops": d.Log})
				}
				return
			}
			feat[op] = true
			if k%every != 0 && k != nOps-1 {
				continue
			}
			bad, w, err := hashCheck(nc)
			if err != nil {
				c.Inconclusive(fmt.Sprintf("case %d: walk failed: %v", i, err))
				return
			}
			c.Count("hash_comparisons", int64(len(w)))
			if bad != "" {
				sig := "hash:stored-differs-from-merkle:after-" + op
				c.Violate(sig, fmt.Sprintf("after op %d (%s): %s", k, op, bad), map[string]any{"case": i, "seed": c.Seed, "ops": d.Log, "tree": vlib.DumpString(w)})
				return
			}
			c.Distinct(fmt.Sprintf("%s placements~%d", op, len(w)/5*5))
		}
		// verification finds nothing to repair
		before, err := vlib.Walk(nc)
		if err != nil {
			c.Inconclusive(err.Error())
			return
		}
		if s, err := adminReq(nc, "admin.storeVerify"); err != nil || s != "" {
			c.Violate("hash:storeVerify-complains", fmt.Sprintf("admin.storeVerify: %q %v", s, err), map[string]any{"case": i, "ops": d.Log})
			return
		}
		if s, err := adminReq(nc, "admin.storeMaint"); err != nil || s != "" {
			c.Violate("hash:storeMaint-complains", fmt.Sprintf("admin.storeMaint: %q %v", s, err), map[string]any{"case": i, "ops": d.Log})
			return
		}
		after, err := vlib.Walk(nc)
		if err != nil {
			c.Inconclusive(err.Error())
			return
		}
		if vlib.DumpString(before) != vlib.DumpString(after) {
			c.Violate("hash:storeMaint-repaired-something", "admin.storeMaint changed the tree: verification found something to repair", map[string]any{"case": i, "ops": d.Log, "before": vlib.DumpString(before), "after": vlib.DumpString(after)})
			return
		}
		c.Count("maint_noop_checks", 1)
		if i < 2 {
			c.Sample(map[string]any{"case": i, "ops": d.Log[:min(len(d.Log), 12)], "placements": len(after)})
		}
	})
	c.Require("hash_comparisons", 500)
	c.Require("maint_noop_checks", 5)
	return c.Finish()
}
