package checks

import (
	"bytes"
	"database/sql"
	"encoding/base64"
	"encoding/json"
	"fmt"
	"io"
	"net/http"
	"net/url"
	"os"
	"os/exec"
	"path/filepath"
	"strings"
	"sync"
	"sync/atomic"
	"time"

	"github.com/golang-jwt/jwt/v4"
	"github.com/nats-io/nats.go"
	"github.com/simpleiot/simpleiot/client"
	"github.com/simpleiot/simpleiot/data"
	_ "modernc.org/sqlite" // plain SQL access to the store file (signing key)

	"verifharness/internal/vlib"
)

func init() { Registry["C09"] = runC09 }

func readJWTKey(file string) ([]byte, error) {
	db, err := sql.Open("sqlite", file+"?_pragma=busy_timeout(8000)")
	if err != nil {
		return nil, err
	}
	defer db.Close()
	var key []byte
	err = db.QueryRow("SELECT jwt_key FROM meta").Scan(&key)
	return key, err
}

type httpResp struct {
	Status int
	Body   string
}

func doHTTP(cl *http.Client, method, url, auth string, hasAuth bool, body []byte, ctype string) (httpResp, error) {
	req, err := http.NewRequest(method, url, bytes.NewReader(body))
	if err != nil {
		return httpResp{}, err
	}
	if hasAuth {
		req.Header["Authorization"] = []string{auth}
	}
	if ctype != "" {
		req.Header.Set("Content-Type", ctype)
	}
	res, err := cl.Do(req)
	if err != nil {
		return httpResp{}, err
	}
	defer res.Body.Close()
	b, _ := io.ReadAll(io.LimitReader(res.Body, 1<<20))
	return httpResp{res.StatusCode, string(b)}, nil
}

func login(cl *http.Client, base, email, pass string) (status int, token string, err error) {
	res, err := cl.PostForm(base+"/v1/auth", url.Values{"email": {email}, "password": {pass}})
	if err != nil {
		return 0, "", err
	}
	defer res.Body.Close()
	b, _ := io.ReadAll(res.Body)
	if res.StatusCode == 200 {
		var a data.Auth
		_ = json.Unmarshal(b, &a)
		token = a.Token
	}
	return res.StatusCode, token, nil
}

type credCase struct {
	Name   string
	Has    bool
	Value  string
	Expect string // "reject", "accept", "open"
}

func makeCreds(r *vlib.R, authToken string, key []byte, validJWT string, userID string) []credCase {
	sign := func(m jwt.SigningMethod, k any, claims jwt.Claims) string {
		s, err := jwt.NewWithClaims(m, claims).SignedString(k)
		if err != nil {
			return "signing-failed"
		}
		return s
	}
	// the same with further header fields (a key id, key locations): whatever a validator does with them, a
	// signature made without the instance's key stays worthless
	signH := func(k any, hdr map[string]any) string {
		t := jwt.NewWithClaims(jwt.SigningMethodHS256, jwt.StandardClaims{ExpiresAt: time.Now().Add(time.Hour).Unix(), Issuer: "simpleiot", Id: userID})
		for hk, hv := range hdr {
			t.Header[hk] = hv
		}
		s, err := t.SignedString(k)
		if err != nil {
			return "signing-failed"
		}
		return s
	}
	good := jwt.StandardClaims{ExpiresAt: time.Now().Add(time.Hour).Unix(), Issuer: "simpleiot", Id: userID}
	expired := jwt.StandardClaims{ExpiresAt: time.Now().Add(-time.Hour).Unix(), Issuer: "simpleiot", Id: userID}
	otherKey := append([]byte{}, key...)
	otherKey[0] ^= 0x55
	parts := strings.Split(validJWT, ".")
	tampered := validJWT
	if len(parts) == 3 {
		pl, _ := base64.RawURLEncoding.DecodeString(parts[1])
		pl = bytes.Replace(pl, []byte(userID), []byte("x"+userID[1:]), 1)
		tampered = parts[0] + "." + base64.RawURLEncoding.EncodeToString(pl) + "." + parts[2]
	}
	garbage := make([]byte, 10000)
	for i := range garbage {
		garbage[i] = byte('a' + r.Intn(26))
	}
	return []credCase{
		{"absent", false, "", "reject"},
		{"empty", true, "", "reject"},
		{"token", true, authToken, "accept"},
		{"token-prefix", true, authToken[:len(authToken)-1], "reject"},
		{"token-suffix", true, authToken + "x", "reject"},
		{"token-leading-space", true, " " + authToken, "open"}, // net/http trims header whitespace
		{"token-trailing-space", true, authToken + " ", "open"},
		{"token-case", true, strings.ToUpper(authToken), "reject"},
		{"bearer-token", true, "Bearer " + authToken, "reject"},
		{"bearer-alone", true, "Bearer", "reject"},
		{"bearer-empty", true, "Bearer ", "reject"},
		{"valid-jwt", true, "Bearer " + validJWT, "accept"},
		{"valid-jwt-minted", true, "Bearer " + sign(jwt.SigningMethodHS256, key, good), "accept"},
		{"jwt-lowercase-scheme", true, "bearer " + validJWT, "open"},
		{"jwt-no-scheme", true, validJWT, "reject"},
		{"jwt-basic-scheme", true, "Basic " + validJWT, "reject"},
		{"jwt-other-key", true, "Bearer " + sign(jwt.SigningMethodHS256, otherKey, good), "reject"},
		{"jwt-empty-key", true, "Bearer " + sign(jwt.SigningMethodHS256, []byte{}, good), "reject"},
		{"jwt-hs384", true, "Bearer " + sign(jwt.SigningMethodHS384, key, good), "reject"},
		{"jwt-hs512", true, "Bearer " + sign(jwt.SigningMethodHS512, key, good), "reject"},
		{"jwt-none", true, "Bearer " + sign(jwt.SigningMethodNone, jwt.UnsafeAllowNoneSignatureType, good), "reject"},
		{"jwt-expired", true, "Bearer " + sign(jwt.SigningMethodHS256, key, expired), "reject"},
		// a bad signature together with a claim anomaly of its own (validators that collect several
		// findings must not let one of them excuse the other)
		{"jwt-other-key-future-iat", true, "Bearer " + sign(jwt.SigningMethodHS256, otherKey, jwt.StandardClaims{ExpiresAt: time.Now().Add(time.Hour).Unix(), IssuedAt: time.Now().Add(time.Hour).Unix(), Issuer: "simpleiot", Id: userID}), "reject"},
		{"jwt-other-key-future-nbf", true, "Bearer " + sign(jwt.SigningMethodHS256, otherKey, jwt.StandardClaims{ExpiresAt: time.Now().Add(2 * time.Hour).Unix(), NotBefore: time.Now().Add(time.Hour).Unix(), Issuer: "simpleiot", Id: userID}), "reject"},
		{"jwt-other-key-no-exp", true, "Bearer " + sign(jwt.SigningMethodHS256, otherKey, jwt.StandardClaims{Issuer: "simpleiot", Id: userID}), "reject"},
		{"jwt-other-key-expired-future-iat", true, "Bearer " + sign(jwt.SigningMethodHS256, otherKey, jwt.StandardClaims{ExpiresAt: time.Now().Add(-time.Hour).Unix(), IssuedAt: time.Now().Add(time.Hour).Unix(), Issuer: "simpleiot", Id: userID}), "reject"},
		{"jwt-empty-key-future-iat", true, "Bearer " + sign(jwt.SigningMethodHS256, []byte{}, jwt.StandardClaims{ExpiresAt: time.Now().Add(time.Hour).Unix(), IssuedAt: time.Now().Add(time.Hour).Unix(), Issuer: "simpleiot", Id: userID}), "reject"},
		{"jwt-hs512-future-iat", true, "Bearer " + sign(jwt.SigningMethodHS512, key, jwt.StandardClaims{ExpiresAt: time.Now().Add(time.Hour).Unix(), IssuedAt: time.Now().Add(time.Hour).Unix(), Issuer: "simpleiot", Id: userID}), "reject"},
		{"jwt-none-future-iat", true, "Bearer " + sign(jwt.SigningMethodNone, jwt.UnsafeAllowNoneSignatureType, jwt.StandardClaims{ExpiresAt: time.Now().Add(time.Hour).Unix(), IssuedAt: time.Now().Add(time.Hour).Unix(), Issuer: "simpleiot", Id: userID}), "reject"},
		{"jwt-expired-future-iat", true, "Bearer " + sign(jwt.SigningMethodHS256, key, jwt.StandardClaims{ExpiresAt: time.Now().Add(-time.Hour).Unix(), IssuedAt: time.Now().Add(time.Hour).Unix(), Issuer: "simpleiot", Id: userID}), "reject"},
		{"jwt-kid-unknown-empty-key", true, "Bearer " + signH([]byte{}, map[string]any{"kid": "k2"}), "reject"},
		{"jwt-kid-zero-empty-key", true, "Bearer " + signH([]byte{}, map[string]any{"kid": "0"}), "reject"},
		{"jwt-kid-blank-empty-key", true, "Bearer " + signH([]byte{}, map[string]any{"kid": ""}), "reject"},
		{"jwt-kid-number-empty-key", true, "Bearer " + signH([]byte{}, map[string]any{"kid": 7}), "reject"},
		{"jwt-kid-unknown-zero-key", true, "Bearer " + signH(make([]byte, 20), map[string]any{"kid": "k2"}), "reject"},
		{"jwt-kid-unknown-other-key", true, "Bearer " + signH(otherKey, map[string]any{"kid": "../../dev/null"}), "reject"},
		{"jwt-jku-x5u-other-key", true, "Bearer " + signH(otherKey, map[string]any{"jku": "http://127.0.0.1:1/keys", "x5u": "file:///dev/null", "jwk": map[string]any{"kty": "oct", "k": ""}}), "reject"},
		{"jwt-kid-unknown-instance-key", true, "Bearer " + signH(key, map[string]any{"kid": "k2"}), "open"},
		{"jwt-tampered-payload", true, "Bearer " + tampered, "reject"},
		{"jwt-truncated", true, "Bearer " + validJWT[:len(validJWT)-3], "reject"},
		{"jwt-no-signature", true, "Bearer " + strings.Join(parts[:2], ".") + ".", "reject"},
		{"garbage-10k", true, "Bearer " + string(garbage), "reject"},
		{"garbage-raw", true, string(garbage[:40]), "reject"},
	}
}

type routeCase struct {
	Method, Path, Kind string
	Body               func(probe, existing, parent string) []byte
	Mutates            bool
}

func c09Routes() []routeCase {
	pointsBody := func(_, _, _ string) []byte {
		b, _ := json.Marshal(data.Points{{Type: "value", Value: 42, Time: time.Now()}})
		return b
	}
	nodeBody := func(probe, _, parent string) []byte {
		b, _ := json.Marshal(data.NodeEdge{ID: probe, Type: "variable", Parent: parent, Points: data.Points{{Type: "description", Text: "from " + probe}}})
		return b
	}
	delBody := func(_, _, parent string) []byte { return []byte(fmt.Sprintf(`{"parent":%q}`, parent)) }
	moveBody := func(probe, existing, parent string) []byte {
		return []byte(fmt.Sprintf(`{"id":%q,"oldParent":%q,"newParent":%q}`, existing, parent, probe))
	}
	copyBody := func(probe, existing, _ string) []byte {
		return []byte(fmt.Sprintf(`{"id":%q,"newParent":%q,"duplicate":false}`, existing, probe))
	}
	notBody := func(probe, _, parent string) []byte {
		return []byte(fmt.Sprintf(`{"parent":%q,"subject":"s %s","message":"m"}`, parent, probe))
	}
	none := func(_, _, _ string) []byte { return nil }
	garbage := func(_, _, _ string) []byte { return []byte("{not json") }
	rc := []routeCase{
		{"GET", "/v1/nodes", "list", none, false},
		{"POST", "/v1/nodes", "create", nodeBody, true},
		{"POST", "/v1/nodes/", "create", nodeBody, true},
		{"PUT", "/v1/nodes", "list", nodeBody, false},
		{"DELETE", "/v1/nodes", "list", none, false},
		{"GET", "/v1/nodes/{existing}", "get", func(_, _, parent string) []byte { return []byte(parent) }, false},
		{"GET", "/v1/nodes/{probe}", "get", none, false},
		{"DELETE", "/v1/nodes/{existing}", "delete", delBody, true},
		{"DELETE", "/v1/nodes/{existing}", "delete", garbage, true},
		{"POST", "/v1/nodes/{existing}/points", "points", pointsBody, true},
		{"POST", "/v1/nodes/{probe}/points", "points", pointsBody, true},
		{"POST", "/v1/nodes/{existing}/samples", "points", pointsBody, true},
		{"GET", "/v1/nodes/{existing}/points", "points", none, false},
		{"POST", "/v1/nodes/{existing}/parents", "move", moveBody, true},
		{"PUT", "/v1/nodes/{existing}/parents", "mirror", copyBody, true},
		{"POST", "/v1/nodes/{existing}/not", "notify", notBody, true},
		{"PATCH", "/v1/nodes/{existing}", "get", none, false},
		{"HEAD", "/v1/nodes/{existing}", "get", none, false},
		{"OPTIONS", "/v1/nodes/{existing}/points", "points", none, false},
		{"POST", "/v1/nodes/{existing}/unknown", "unknown", pointsBody, false},
		{"POST", "/v1//nodes/{existing}/points", "points", pointsBody, true}, // path cleaning
		{"POST", "/v1/nodes/../nodes/{existing}/points", "points", pointsBody, true},
	}
	return rc
}

func runC09(tier string, _ []string) int {
	c := vlib.NewCtx("C09", tier, "exploration")
	vlib.SetPortBlock(9)
	c.SetRule("part A: an instance configured with an auth token; methods x node routes (/v1/nodes, /:id, /points, /samples, /parents, /not, unknown; path-cleaning variants) x 43 Authorization values (absent, empty, the token and near misses, Bearer variants, the instance's JWT, JWTs minted with the instance key read from the store file: other key, empty key, HS384, HS512, none, expired, payload-tampered, truncated, unsigned, garbage, bad signatures combined with future iat / nbf / missing exp; tokens with key-id / key-location header fields signed with an empty, zero or other key; plus a token used while valid and again after its expiry) x bodies; then all credentials at once from 12 goroutines (each answer must be the one its own credential deserves); each probe targets a fresh id and an existing node; monitor: status 401 for every non-credential, no bus message mentioning the probe id on a '>' tap, tree dump unchanged; credentials must be served; NATS TCP and WebSocket connects without / with a wrong token must fail. part A2: the same forged-token probes (tokens signed with an empty / zero key) against an instance restarted on a store whose first start was killed just before the signing key was written (real crash of a writer process at the sqlite.initJwtKey.beforeWrite site). part B: user placements (created, moved, mirrored, deleted, re-added, under a deleted group, two users with one e-mail - one of them deleted, or one of them below a deleted group -, wrong password) vs /v1/auth, asked after every single step of a scenario and at its end: token issued exactly when the model finds a live path to the root; the node listing for the issued token is a subset of the subtrees of the user's live placements; every login is accompanied by 27 probes that pair one half of the real credential with a text no user has (query-language and pattern shapes, case and whitespace variants) and must be refused; a third of the addresses contain an apostrophe. A user whose group is placed below 1030-1090 groups (built from the bottom up) logs in. distinct = (credential, route kind, outcome) / (placement scenario, model verdict)")
	c.Assume("'open' header forms (whitespace around the token, lower-case scheme) are only required to leave no trace if answered 401")
	cl := &http.Client{Timeout: 30 * time.Second}

	// ---------------- part A
	rounds := c.N(1, 16)
	vlib.Parallel(rounds, 4, func(ri int) {
		r := vlib.NewR(c.Seed, "c09a", ri)
		authToken := "tok-" + r.Ident(12)
		in, err := vlib.StartInstance(vlib.InstCfg{ID: fmt.Sprintf("c09-%d", ri), AuthToken: authToken})
		if err != nil {
			c.Inconclusive(err.Error())
			return
		}
		defer in.Stop()
		base := "http://127.0.0.1:" + in.Opts.HTTPPort
		nc, err := in.Connect()
		if err != nil {
			c.Inconclusive(err.Error())
			return
		}
		d := newGdriver(r, nc, in.RootID, fmt.Sprintf("a%d", ri))
		grp, err := d.create(in.RootID, "group", false)
		if err != nil {
			c.Violate("store:legal-write-refused", err.Error(), nil)
			return
		}
		existing, _ := d.create(grp, "variable", false)
		key, err := readJWTKey(in.Opts.StoreFile)
		if err != nil || len(key) == 0 {
			c.Inconclusive(fmt.Sprint("cannot read signing key from the store file: ", err))
			return
		}
		st, validJWT, err := login(cl, base, "admin@admin.com", "admin")
		if err != nil || st != 200 || validJWT == "" {
			c.Violate("auth:default-admin-cannot-log-in", fmt.Sprintf("status %d err %v", st, err), nil)
			return
		}
		adminNodes, _ := client.UserCheck(nc, "admin@admin.com", "admin")
		adminID := ""
		for _, n := range adminNodes {
			if n.Type == data.NodeTypeUser {
				adminID = n.ID
			}
		}
		// bus connections
		for _, tc := range []struct{ name, url, tok string }{
			{"tcp-no-token", in.Opts.NatsServer, ""},
			{"tcp-wrong-token", in.Opts.NatsServer, authToken + "x"},
			{"tcp-empty-like", in.Opts.NatsServer, " "},
			{"ws-no-token", fmt.Sprintf("ws://127.0.0.1:%d", in.Opts.NatsWSPort), ""},
			{"ws-wrong-token", fmt.Sprintf("ws://127.0.0.1:%d", in.Opts.NatsWSPort), "nope"},
		} {
			opts := []nats.Option{nats.Timeout(5 * time.Second), nats.MaxReconnects(0)}
			if tc.tok != "" {
				opts = append(opts, nats.Token(tc.tok))
			}
			x, err := nats.Connect(tc.url, opts...)
			c.Eval(1)
			if err == nil {
				// a connection object alone is not enough: try to use it
				_, rerr := x.Request("nodes.root.all", nil, 2*time.Second)
				x.Close()
				if rerr == nil {
					c.Violate("auth:bus-connection-without-token:"+tc.name, "a bus connection without the right token was accepted and served a request", map[string]any{"case": tc.name})
					return
				}
			}
			c.Distinct("bus " + tc.name)
			c.Count("bus_connects_refused", 1)
		}
		for _, u := range []string{in.Opts.NatsServer, fmt.Sprintf("ws://127.0.0.1:%d", in.Opts.NatsWSPort)} {
			x, err := nats.Connect(u, nats.Token(authToken), nats.Timeout(5*time.Second))
			if err != nil {
				c.Violate("auth:bus-connection-with-token-refused", u+": "+err.Error(), nil)
				return
			}
			x.Close()
		}

		tap, err := vlib.NewTap(nc, ">")
		if err != nil {
			c.Inconclusive(err.Error())
			return
		}
		defer tap.Close()
		creds := makeCreds(r, authToken, key, validJWT, adminID)
		routes := c09Routes()
		probeN := 0
		// a token of this instance that expires during the round: used while valid now, and again after
		// its expiry at the end of the round (an instance must not remember that it once accepted it)
		expAt := time.Now().Unix() + 2
		expiring, _ := jwt.NewWithClaims(jwt.SigningMethodHS256, jwt.StandardClaims{ExpiresAt: expAt, Issuer: "simpleiot", Id: adminID}).SignedString(key)
		expUsedWhileValid := 0
		for _, rt := range []struct{ m, p, b string }{{"GET", "/v1/nodes/" + existing, grp}, {"GET", "/v1/nodes", ""}, {"POST", "/v1/nodes/" + existing + "/points", `[{"type":"value","value":1}]`}} {
			res, err := doHTTP(cl, rt.m, base+rt.p, "Bearer "+expiring, true, []byte(rt.b), "application/json")
			if err == nil && res.Status == 200 {
				expUsedWhileValid++
			}
		}
		for _, cr := range creds {
			for _, rt := range routes {
				probeN++
				probe := fmt.Sprintf("probe%d-%d-%s", ri, probeN, r.Ident(5))
				path := strings.ReplaceAll(strings.ReplaceAll(rt.Path, "{existing}", existing), "{probe}", probe)
				body := rt.Body(probe, existing, grp)
				wit := map[string]any{"credential": cr.Name, "method": rt.Method, "path": path, "body": string(body), "expect": cr.Expect}
				var before string
				if cr.Expect != "accept" {
					w, err := vlib.Walk(nc)
					if err != nil {
						c.Inconclusive(err.Error())
						return
					}
					before = vlib.DumpString(w)
				}
				tap.Drain()
				res, err := doHTTP(cl, rt.Method, base+path, cr.Value, cr.Has, body, "application/json")
				c.Eval(1)
				if err != nil {
					c.Violate("auth:http-request-failed", fmt.Sprintf("%s %s: %v", rt.Method, path, err), wit)
					return
				}
				wit["status"] = res.Status
				// settle: a round trip through the store, then drain
				_, _ = client.GetNodes(nc, "root", "all", "", false)
				time.Sleep(2 * time.Millisecond)
				msgs := tap.Drain()
				var mention []string
				for _, m := range msgs {
					if strings.Contains(m.Subject, probe) || bytes.Contains(m.Raw, []byte(probe)) ||
						(rt.Mutates && (strings.HasPrefix(m.Subject, "p."+existing) || strings.HasPrefix(m.Subject, "node."+existing))) {
						mention = append(mention, m.Subject)
					}
				}
				switch cr.Expect {
				case "reject", "open":
					if cr.Expect == "reject" && res.Status != 401 {
						c.Violate("auth:served-without-credentials:"+cr.Name, fmt.Sprintf("%s %s with credential %q answered %d, not 401", rt.Method, path, cr.Name, res.Status), wit)
						return
					}
					if res.Status == 401 || cr.Expect == "reject" {
						if len(mention) > 0 {
							wit["bus"] = mention
							c.Violate("auth:unauthenticated-request-reached-the-bus", fmt.Sprintf("bus traffic %v caused by a request answered %d", mention, res.Status), wit)
							return
						}
						w, err := vlib.Walk(nc)
						if err != nil {
							c.Inconclusive(err.Error())
							return
						}
						if after := vlib.DumpString(w); after != before {
							wit["before"], wit["after"] = before, after
							c.Violate("auth:unauthenticated-request-changed-nodes", "tree changed by a request without valid credentials", wit)
							return
						}
						c.Count("rejected_probes_checked", 1)
					}
				case "accept":
					if res.Status == 401 {
						c.Violate("auth:valid-credential-refused:"+cr.Name, fmt.Sprintf("%s %s with a valid credential answered 401", rt.Method, path), wit)
						return
					}
					c.Count("accepted_probes", 1)
				}
				c.Distinct(fmt.Sprintf("%s %s %s -> %d", cr.Name, rt.Method, rt.Kind, res.Status))
				if ri == 0 && probeN <= 3 {
					c.Sample(wit)
				}
			}
		}
		// the expiring token again, now past its expiry (only later makes it more expired: no deadline on our side)
		if expUsedWhileValid > 0 {
			for time.Now().Unix() <= expAt+1 {
				time.Sleep(100 * time.Millisecond)
			}
			w, err := vlib.Walk(nc)
			if err != nil {
				c.Inconclusive(err.Error())
				return
			}
			before := vlib.DumpString(w)
			for _, rt := range []struct{ m, p, b string }{{"GET", "/v1/nodes/" + existing, grp}, {"GET", "/v1/nodes", ""}, {"POST", "/v1/nodes/" + existing + "/points", `[{"type":"value","value":2}]`}} {
				res, err := doHTTP(cl, rt.m, base+rt.p, "Bearer "+expiring, true, []byte(rt.b), "application/json")
				c.Eval(1)
				if err != nil {
					c.Violate("auth:http-request-failed", fmt.Sprintf("%s %s: %v", rt.m, rt.p, err), nil)
					return
				}
				if res.Status != 401 {
					c.Violate("auth:served-without-credentials:jwt-expired-after-use", fmt.Sprintf("%s %s with a token that expired %d s ago (and had been used %d times while valid) answered %d, not 401", rt.m, rt.p, time.Now().Unix()-expAt, expUsedWhileValid, res.Status), map[string]any{"method": rt.m, "path": rt.p, "status": res.Status})
					return
				}
			}
			w, err = vlib.Walk(nc)
			if err != nil {
				c.Inconclusive(err.Error())
				return
			}
			if after := vlib.DumpString(w); after != before {
				c.Violate("auth:unauthenticated-request-changed-nodes", "tree changed by a request with an expired token", map[string]any{"before": before, "after": after})
				return
			}
			c.Count("expired_after_use_checked", 1)
			c.Distinct("jwt-expired-after-use -> 401")
		} else {
			c.Count("expiring_token_first_use_came_too_late", 1)
		}
		// ---- the same credentials all at once: what one request proves must not rub off on another
		// (a verdict remembered from the previous or a concurrent request)
		{
			type job struct {
				cr credCase
				m  string
				p  string
				b  string
			}
			var jobs []job
			for rep := 0; rep < 6; rep++ {
				for _, cr := range creds {
					if cr.Expect == "open" {
						continue
					}
					jobs = append(jobs, job{cr, "GET", "/v1/nodes/" + existing, grp}, job{cr, "POST", "/v1/nodes/" + existing + "/points", `[{"type":"conc","value":1}]`})
				}
			}
			r.Shuffle(len(jobs), func(a, b int) { jobs[a], jobs[b] = jobs[b], jobs[a] })
			var wg sync.WaitGroup
			var mu sync.Mutex
			var firstBad string
			var badWit map[string]any
			next := int64(-1)
			for w := 0; w < 12; w++ {
				wg.Add(1)
				go func() {
					defer wg.Done()
					for {
						k := int(atomic.AddInt64(&next, 1))
						if k >= len(jobs) {
							return
						}
						j := jobs[k]
						res, err := doHTTP(cl, j.m, base+j.p, j.cr.Value, j.cr.Has, []byte(j.b), "application/json")
						if err != nil {
							continue
						}
						wrong := (j.cr.Expect == "reject" && res.Status != 401) || (j.cr.Expect == "accept" && res.Status == 401)
						if wrong {
							mu.Lock()
							if firstBad == "" {
								firstBad = fmt.Sprintf("%s %s with credential %q answered %d while %d requests with other credentials were in flight", j.m, j.p, j.cr.Name, res.Status, 11)
								badWit = map[string]any{"credential": j.cr.Name, "method": j.m, "path": j.p, "status": res.Status, "expect": j.cr.Expect}
							}
							mu.Unlock()
						}
					}
				}()
			}
			wg.Wait()
			c.Eval(len(jobs))
			if firstBad != "" {
				sig := "auth:served-without-credentials:concurrent-requests"
				if badWit["expect"] == "accept" {
					sig = "auth:valid-credential-refused:concurrent-requests"
				}
				c.Violate(sig, firstBad, badWit)
				return
			}
			c.Count("concurrent_mixed_credential_requests", int64(len(jobs)))
			c.Distinct("concurrent mixed credentials")
		}
		// a valid credential really reaches the node
		existing, err = d.create(grp, "variable", false)
		if err != nil {
			c.Violate("store:legal-write-refused", err.Error(), nil)
			return
		}
		res, err := doHTTP(cl, "POST", base+"/v1/nodes/"+existing+"/points", authToken, true, []byte(`[{"type":"value","value":7}]`), "application/json")
		if err != nil || res.Status != 200 {
			c.Violate("auth:valid-credential-refused:token", fmt.Sprintf("points write with the token: %v %d %s", err, res.Status, res.Body), nil)
			return
		}
		nodes, _ := client.GetNodes(nc, grp, existing, "", false)
		if len(nodes) != 1 {
			c.Inconclusive("existing node vanished")
			return
		}
		if v, ok := nodes[0].Points.Value("value", ""); !ok || v != 7 {
			c.Violate("auth:authorized-write-not-applied", "a points write with the token answered 200 but is not stored", nil)
		}
	})

	// ---------------- part A2: an instance whose first start died just before the signing key was
	// written (real crash: the C04 writer process killed at the sqlite.initJwtKey.beforeWrite site),
	// restarted with an auth token: it must not end up accepting tokens signed with "no key"
	if self, err := os.Executable(); err == nil {
		nCrash := c.N(2, 12)
		for ci := 0; ci < nCrash && !vlib.Aborted(); ci++ {
			r := vlib.NewR(c.Seed, "c09crash", ci)
			dir, err := os.MkdirTemp("", "verif-c09crash-")
			if err != nil {
				c.Inconclusive(err.Error())
				break
			}
			site := []string{"sqlite.initJwtKey.beforeWrite", "sqlite.initJwtKey.beforeWrite", "sqlite.initRoot.afterAdminEdge"}[ci%3]
			cmd := exec.Command(self, "C04", tier, "worker", dir, fmt.Sprint(c.Seed), "1", "1", site, "1")
			out, _ := cmd.CombinedOutput()
			if !strings.Contains(string(out), "SITEKILL") {
				os.RemoveAll(dir)
				c.Inconclusive("the crash site " + site + " was not reached by the writer process")
				continue
			}
			authToken := "tok-" + r.Ident(10)
			in, err := vlib.StartInstance(vlib.InstCfg{StoreFile: filepath.Join(dir, "store.sqlite"), AuthToken: authToken})
			if err != nil {
				os.RemoveAll(dir)
				c.Violate("auth:instance-does-not-start-after-crash-in-initialisation", err.Error(), map[string]any{"site": site})
				break
			}
			base := "http://127.0.0.1:" + in.Opts.HTTPPort
			wit := map[string]any{"crash_site": site}
			claims := jwt.StandardClaims{ExpiresAt: time.Now().Add(time.Hour).Unix(), Issuer: "simpleiot", Id: in.RootID}
			bad := ""
			for name, key := range map[string][]byte{"empty key": {}, "nil key": nil, "one zero byte": {0}, "20 zero bytes": make([]byte, 20)} {
				tok, err := jwt.NewWithClaims(jwt.SigningMethodHS256, claims).SignedString(key)
				if err != nil {
					continue
				}
				res, err := doHTTP(cl, "GET", base+"/v1/nodes", "Bearer "+tok, true, nil, "")
				c.Eval(1)
				if err == nil && res.Status != 401 {
					bad = fmt.Sprintf("GET /v1/nodes with a token signed with %s answered %d on an instance restarted after a crash at %s", name, res.Status, site)
					wit["key"] = name
				}
			}
			st, tok, lerr := login(cl, base, "admin@admin.com", "admin")
			if bad == "" && site == "sqlite.initJwtKey.beforeWrite" && (lerr != nil || st != 200 || tok == "") {
				bad = fmt.Sprintf("the default admin cannot log in after the restart (status %d, %v)", st, lerr)
			}
			if bad == "" && tok != "" {
				if res, err := doHTTP(cl, "GET", base+"/v1/nodes", "Bearer "+tok, true, nil, ""); err == nil && res.Status == 401 {
					bad = "the token the instance just issued is refused"
				}
			}
			in.Stop()
			os.RemoveAll(dir)
			if bad != "" {
				sig := "auth:served-without-credentials:unsigned-token-after-crash-in-initialisation"
				if !strings.Contains(bad, "signed with") {
					sig = "auth:valid-credential-refused:after-crash-in-initialisation"
				}
				c.Violate(sig, bad, wit)
				break
			}
			c.Count("restarts_after_crash_in_initialisation_checked", 1)
			c.Distinct("restart after crash at " + site)
		}
	}

	// ---------------- part B: who may log in
	nScen := c.N(40, 600)
	scen := []string{"plain", "moved", "mirrored-old-deleted", "deleted", "deleted-readded", "under-deleted-group", "under-deleted-then-mirrored-live",
		"two-users-one-email-one-deleted", "two-users-both-deleted", "wrong-password", "moved-twice", "group-moved", "random-history",
		"mirrored-then-later-group-deleted", "mirrored-then-first-group-deleted", "mirrored-both-groups-deleted", "mirrored-later-group-deleted-and-restored", "three-placements-middle-live", "two-users-one-email-older-under-deleted-group", "two-users-one-email-newer-under-deleted-group"}
	vlib.Parallel((nScen+len(scen)-1)/len(scen), 4, func(bi int) {
		r := vlib.NewR(c.Seed, "c09b", bi)
		authToken := "tok-" + r.Ident(8)
		in, err := vlib.StartInstance(vlib.InstCfg{ID: fmt.Sprintf("c09b-%d", bi), AuthToken: authToken})
		if err != nil {
			c.Inconclusive(err.Error())
			return
		}
		defer in.Stop()
		base := "http://127.0.0.1:" + in.Opts.HTTPPort
		nc, err := in.Connect()
		if err != nil {
			c.Inconclusive(err.Error())
			return
		}
		ownIDs := map[string]bool{} // nodes the fresh instance holds by itself (the default admin user below the root)
		if w0, err := vlib.Walk(nc); err == nil {
			for _, pl := range w0 {
				ownIDs[pl.ID] = true
			}
		}
		d := newGdriver(r, nc, in.RootID, fmt.Sprintf("b%d", bi))
		d.Finite = true // a listing holding +-Inf fails JSON encoding (405), which is not an auth matter
		type userRec struct{ id, email, pass string }
		var users []userRec
		decoys := map[string]bool{}
		mkUser := func(parent, email, pass string) (string, error) {
			id := d.newID()
			upts := data.Points{{Type: data.PointTypeEmail, Time: d.now(), Text: email}, {Type: data.PointTypePass, Time: d.now(), Text: pass}, {Type: data.PointTypeFirstName, Time: d.now(), Text: "u"}}
			if r.Chance(0.5) {
				// points of the credential types under other keys (not the credentials: those live under key 0),
				// written before or after the real ones
				decoy := data.Points{{Type: data.PointTypePass, Key: "1", Time: d.now(), Text: "decoy-" + pass}, {Type: data.PointTypeEmail, Key: "old", Time: d.now(), Text: "decoy-" + email}}
				if r.Chance(0.5) {
					upts = append(upts, decoy...)
				} else {
					upts = append(decoy, upts...)
				}
				decoys[email] = true
			}
			if e, err := d.sendNode(id, upts); err != nil || e != "" {
				return id, fmt.Errorf("user points: %v %s", err, e)
			}
			if e, err := d.sendEdge(id, parent, data.Points{{Type: data.PointTypeTombstone, Time: d.now(), Value: 0}, {Type: data.PointTypeNodeType, Text: data.NodeTypeUser}}); err != nil || e != "" {
				return id, fmt.Errorf("user edge: %v %s", err, e)
			}
			d.Made = append(d.Made, id)
			users = append(users, userRec{id, email, pass})
			return id, nil
		}
		tomb := func(id, parent string, v float64) error {
			e, err := d.sendEdge(id, parent, data.Points{{Type: data.PointTypeTombstone, Time: d.now(), Value: v}})
			if err == nil && e != "" {
				err = fmt.Errorf("tombstone refused: %s", e)
			}
			return err
		}
		mirror := func(id, np, typ string) error {
			e, err := d.sendEdge(id, np, data.Points{{Type: data.PointTypeTombstone, Time: d.now(), Value: 0}, {Type: data.PointTypeNodeType, Text: typ}})
			if err == nil && e != "" {
				err = fmt.Errorf("mirror refused: %s", e)
			}
			return err
		}
		for si, sc := range scen {
			email := fmt.Sprintf("u%d-%d@x.io", bi, si)
			if si%3 == 1 {
				email = "o'" + email // an apostrophe is a legal character of an address
			}
			pass := "pw" + r.Ident(4)
			tryPass := pass
			g1, _ := d.create(in.RootID, "group", false)
			g2, _ := d.create(in.RootID, "group", false)
			g3, err := d.create(g2, "group", false)
			if err != nil {
				c.Violate("store:legal-write-refused", err.Error(), map[string]any{"ops": d.Log})
				return
			}
			var serr error
			midBad := ""
			step := func(e error) {
				if serr == nil {
					serr = e
				}
				if serr != nil || midBad != "" {
					return
				}
				// the verdict after every single change, not only after the last one (a verdict or a path
				// remembered from an earlier request must not outlive the change that invalidates it)
				want := false
				for _, ur := range users {
					if ur.email == email && ur.pass == tryPass && d.g.LiveUnderRoot(ur.id) {
						want = true
					}
				}
				st, tok, err := login(cl, base, email, tryPass)
				c.Eval(1)
				if err != nil {
					return
				}
				if got := st == 200 && tok != ""; got != want {
					midBad = fmt.Sprintf("after step %d of scenario %s: login answered %d (token issued=%v), the model says connected=%v", len(d.Log), sc, st, tok != "", want)
				}
				c.Count("login_verdicts_between_steps", 1)
			}
			u, e := mkUser(g1, email, pass)
			step(e)
			switch sc {
			case "plain":
			case "moved":
				step(mirror(u, g3, "user"))
				step(tomb(u, g1, 1))
			case "moved-twice":
				step(mirror(u, g3, "user"))
				step(tomb(u, g1, 1))
				step(mirror(u, g2, "user"))
				step(tomb(u, g3, 1))
			case "mirrored-old-deleted":
				step(mirror(u, g2, "user"))
				step(tomb(u, g1, 1))
			case "deleted":
				step(tomb(u, g1, 1))
			case "deleted-readded":
				step(tomb(u, g1, 1))
				step(tomb(u, g1, 0))
			case "under-deleted-group":
				step(tomb(g1, in.RootID, 1))
			case "under-deleted-then-mirrored-live":
				step(tomb(g1, in.RootID, 1))
				step(mirror(u, g3, "user"))
			case "two-users-one-email-one-deleted":
				u2, e := mkUser(g3, email, pass)
				step(e)
				if r.Chance(0.5) {
					step(tomb(u, g1, 1))
				} else {
					step(tomb(u2, g3, 1))
				}
			case "two-users-one-email-older-under-deleted-group":
				// a copy of the user with the same credentials; the group of the older one is deleted (its own
				// edge stays alive): the copy is connected, the login is good
				u2, e := mkUser(g3, email, pass)
				step(e)
				_ = u2
				step(tomb(g1, in.RootID, 1))
			case "two-users-one-email-newer-under-deleted-group":
				u2, e := mkUser(g3, email, pass)
				step(e)
				_ = u2
				step(tomb(g2, in.RootID, 1))
			case "two-users-both-deleted":
				u2, e := mkUser(g3, email, pass)
				step(e)
				step(tomb(u, g1, 1))
				step(tomb(u2, g3, 1))
			case "wrong-password":
				tryPass = pass + "x"
			case "mirrored-then-later-group-deleted":
				step(mirror(u, g3, "user"))
				step(tomb(g2, in.RootID, 1)) // g3 hangs under g2: the later placement now leads to a deleted group
			case "mirrored-then-first-group-deleted":
				step(mirror(u, g3, "user"))
				step(tomb(g1, in.RootID, 1))
			case "mirrored-both-groups-deleted":
				step(mirror(u, g3, "user"))
				step(tomb(g1, in.RootID, 1))
				step(tomb(g3, g2, 1))
			case "mirrored-later-group-deleted-and-restored":
				step(mirror(u, g3, "user"))
				step(tomb(g3, g2, 1))
				step(tomb(g1, in.RootID, 1))
				step(tomb(g3, g2, 0))
			case "three-placements-middle-live":
				step(mirror(u, g2, "user"))
				step(mirror(u, g3, "user"))
				step(tomb(g1, in.RootID, 1))
				step(tomb(u, g3, 1))
			case "group-moved":
				step(mirror(g1, g3, "group"))
				step(tomb(g1, in.RootID, 1))
			case "random-history":
				for k := 0; k < 12; k++ {
					_, e := d.randomLegalOp()
					step(e)
				}
			}
			if serr != nil {
				c.Violate("store:legal-write-refused", serr.Error(), map[string]any{"scenario": sc, "ops": d.Log})
				return
			}
			if midBad != "" {
				sig := "auth:login-verdict-wrong-between-steps:" + sc
				c.Violate(sig, midBad, map[string]any{"scenario": sc, "ops": d.Log, "edges": d.g.EdgeKeys()})
				return
			}
			// model verdict
			want := false
			var liveUsers []string
			for _, ur := range users {
				if ur.email == email && ur.pass == tryPass && d.g.LiveUnderRoot(ur.id) {
					want = true
					liveUsers = append(liveUsers, ur.id)
				}
			}
			st, tok, err := login(cl, base, email, tryPass)
			c.Eval(1)
			wit := map[string]any{"scenario": sc, "email": email, "model_allows": want, "status": st, "edges": d.g.EdgeKeys(), "ops": d.Log}
			if err != nil {
				c.Inconclusive(err.Error())
				return
			}
			if want && (st != 200 || tok == "") {
				c.Violate("auth:connected-user-cannot-log-in:"+sc, fmt.Sprintf("user with a live path to the root is refused (status %d)", st), wit)
				return
			}
			if !want && st == 200 && tok != "" {
				c.Violate("auth:token-issued-to-disconnected-user:"+sc, "a token was issued although no matching user is connected to the root through live edges", wit)
				return
			}
			c.Distinct(fmt.Sprintf("login %s allowed=%v", sc, want))
			c.Count("login_verdicts", 1)
			// e-mails and passwords no user has, shaped like what a query language, a pattern match or a careless
			// comparison might take for a match, together with the other half of a real credential
			{
				hostile := []string{"' OR '1'='1", "' OR 1=1 --", "\" OR \"\"=\"", "%", "_", "*", "", email + "' --", email + " ", " " + email, strings.ToUpper(email), email + "\x00", "%" + email[1:], email + "%"}
				for _, h := range hostile {
					for _, probe := range [][2]string{{h, tryPass}, {email, h}} {
						if (probe[0] == email && probe[1] == tryPass) || (h == "" && probe[0] == email) {
							continue
						}
						known := false
						for _, ur := range users {
							if ur.email == probe[0] && ur.pass == probe[1] {
								known = true
							}
						}
						if known {
							continue
						}
						st2, tok2, err := login(cl, base, probe[0], probe[1])
						c.Eval(1)
						if err == nil && st2 == 200 && tok2 != "" {
							wit["probe_email"], wit["probe_password"] = probe[0], probe[1]
							c.Violate("auth:token-issued-for-text-that-is-not-the-credential", fmt.Sprintf("a token was issued for e-mail %q / password %q, which no user has", probe[0], probe[1]), wit)
							return
						}
					}
				}
				c.Count("hostile_login_probes", 1)
			}
			if decoys[email] {
				for _, probe := range [][2]string{{email, "decoy-" + pass}, {"decoy-" + email, pass}, {"decoy-" + email, "decoy-" + pass}} {
					st2, tok2, err := login(cl, base, probe[0], probe[1])
					c.Eval(1)
					if err == nil && st2 == 200 && tok2 != "" {
						wit["probe_email"], wit["probe_password"] = probe[0], probe[1]
						c.Violate("auth:token-issued-for-text-that-is-not-the-credential", "a token was issued for an e-mail / password that only appears in points under other keys of the user node", wit)
						return
					}
				}
				c.Count("decoy_credential_probes", 1)
			}
			if want {
				// listing: only subtrees of the user's live placements
				res, err := doHTTP(cl, "GET", base+"/v1/nodes", "Bearer "+tok, true, nil, "")
				if err != nil || res.Status != 200 {
					c.Violate("auth:listing-failed", fmt.Sprintf("GET /v1/nodes with an issued token: %v %d", err, res.Status), wit)
					return
				}
				var listed []data.NodeEdge
				if err := json.Unmarshal([]byte(res.Body), &listed); err != nil {
					c.Violate("auth:listing-failed", "listing is not JSON: "+err.Error(), wit)
					return
				}
				allowed := map[string]bool{}
				var addSub func(n string)
				addSub = func(n string) {
					if allowed[n] {
						return
					}
					allowed[n] = true
					for _, ch := range d.g.Children(n, false) {
						addSub(ch)
					}
				}
				// the token names one of the matching users; the listing may be for any of them
				for _, uid := range liveUsers {
					for _, p := range d.g.Parents(uid, false) {
						addSub(p)
					}
				}
				if allowed[in.RootID] {
					// attached to the instance root: the whole tree, including what the instance created itself
					for id := range ownIDs {
						allowed[id] = true
					}
				}
				for _, n := range listed {
					if !allowed[n.ID] {
						wit["listed"] = n.ID
						c.Violate("auth:listing-leaks-foreign-node", fmt.Sprintf("node %s is listed but lies outside the subtrees the user is attached to", n.ID), wit)
						return
					}
				}
				if len(listed) == 0 {
					c.Violate("auth:listing-empty", "a logged-in user sees no nodes at all", wit)
					return
				}
				c.Count("listings_checked", 1)
			}
		}
	})
	// ---- scale: a user whose group is shown in more than a thousand places is connected to the
	// root a thousand ways and can log in like anybody else
	if !vlib.Aborted() {
		func() {
			r := vlib.NewR(c.Seed, "c09wide", 0)
			in, err := vlib.StartInstance(vlib.InstCfg{ID: "c09-wide", AuthToken: "tok-wide"})
			if err != nil {
				c.Inconclusive(err.Error())
				return
			}
			defer in.Stop()
			nc, err := in.Connect()
			if err != nil {
				c.Inconclusive(err.Error())
				return
			}
			d := newGdriver(r, nc, in.RootID, "wd")
			n := 1030 + r.Intn(60)
			_, groups, g, err := buildWide(d, in.RootID, n, "group")
			if err != nil {
				c.Violate("store:legal-write-refused", "wide graph: "+err.Error(), map[string]any{"stage": "wide"})
				return
			}
			uid := d.newID()
			email, pass := "wide@x.io", "pw"+r.Ident(5)
			if e, err := d.sendNode(uid, data.Points{{Type: data.PointTypeEmail, Time: d.now(), Text: email}, {Type: data.PointTypePass, Time: d.now(), Text: pass}}); err != nil || e != "" {
				c.Violate("store:legal-write-refused", fmt.Sprint(err, e), nil)
				return
			}
			if e, err := d.sendEdge(uid, g, data.Points{{Type: data.PointTypeTombstone, Time: d.now()}, {Type: data.PointTypeNodeType, Text: "user"}}); err != nil || e != "" {
				c.Violate("store:legal-write-refused", fmt.Sprint(err, e), nil)
				return
			}
			cl := &http.Client{Timeout: 120 * time.Second}
			base := "http://127.0.0.1:" + in.Opts.HTTPPort
			wit := map[string]any{"stage": "wide", "seed": c.Seed, "places_of_the_users_group": n}
			st, tok, err := login(cl, base, email, pass)
			c.Eval(1)
			if err != nil {
				c.Inconclusive("wide: login request: " + err.Error())
				return
			}
			if st != 200 || tok == "" {
				c.Violate("auth:connected-user-cannot-log-in:group-in-a-thousand-places", fmt.Sprintf("a user whose group is placed below %d groups (all alive) is refused (status %d)", n, st), wit)
				return
			}
			// (deleting the thousand places one by one, with a login before the last, takes the store a quarter of an
			// hour: one login through all of them is what is checked)
			_ = groups
			_ = g
			c.Count("logins_through_a_thousand_places", 1)
		}()
	}
	c.Require("rejected_probes_checked", 100)
	c.Require("accepted_probes", 20)
	c.Require("login_verdicts", 10)
	c.Require("listings_checked", 3)
	return c.Finish()
}
