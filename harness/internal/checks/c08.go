package checks

import (
	"fmt"
	"reflect"
	"strings"
	"sync"
	"time"

	"github.com/simpleiot/simpleiot/client"
	"github.com/simpleiot/simpleiot/data"

	"verifharness/internal/vlib"
)

func init() { Registry["C08"] = runC08 }

type sentBatch struct {
	N      int
	Edge   bool
	Node   string
	Parent string
	Origin string
	Points data.Points
}

func sameBatch(e vEvent, s sentBatch) bool {
	if s.Edge != (e.Kind == "edgePoints") || e.Node != s.Node || (s.Edge && e.Parent != s.Parent) {
		return false
	}
	return pointsDiff(s.Points, e.Points) == ""
}

func runC08(tier string, _ []string) int {
	c := vlib.NewCtx("C08", tier, "exploration")
	vlib.SetPortBlock(8)
	c.SetRule("per case a fresh instance, a real client.Manager and 3-6 instrumented clients (one with children, one nested under a group, one mirrored under two parents); then 30-200 acknowledged batches from one connection (so acceptance order = send order) with origins from {'', own id, sibling id, child id, 'user-x'} to the clients' nodes, their children, siblings, unrelated nodes and the groups above, node points and edge points, non-decreasing timestamps per identity (one node batch in seventeen holds 13-40 points with identities repeated under one time stamp); a marker point with a foreign origin closes each client's stream. One client per case has its constructor held back while a foreign point is written to its node: it must be told afterwards. Oracle per client: delivered callbacks == the sent batches addressed to its node or a descendant, in order, where foreign-origin batches MUST appear, self-authored ones ('' on the own node, origin == own id) MUST NOT, and '' on a descendant MAY; fold check: constructed config + delivered (+ self-authored) points via MergePoints/MergeEdgePoints == Decode of what GetNodes returns. distinct = (target kind, origin kind, node|edge, class) In every second case a node outside every client subtree is then attached below a client node while a second connection writes to it back to back; after the manager has settled, a foreign point written to the newcomer must reach that client (marker barrier on the client node). In every sixteenth case a client is kept busy (its Points call does not return) while 1500 foreign changes to its node are accepted; afterwards it must be told of all of them in order.")
	c.Assume("structure is fixed during the write phase (restarts belong to C07); tombstoned array elements are not generated (Decode documents that holes may remain)")
	nRuns := c.N(40, 400)
	wd := c.NewWatchdog()
	vlib.Parallel(nRuns, 6, func(i int) {
		r := vlib.NewR(c.Seed, "c08", i)
		v, err := startVM(c, wd, i, r, 3)
		if err != nil {
			c.Inconclusive(err.Error())
			return
		}
		defer v.close()
		d := v.d
		g := d.g
		mk := func(parent, typ string, pts data.Points) string {
			id := d.newID()
			// edge first, then the points: the client is constructed when the edge appears, so points written
			// while it is being created must reach it through its subscription (folded below)
			pointsFirst := d.r.Chance(0.3)
			if pointsFirst && len(pts) > 0 {
				if e, err := d.sendNode(id, pts); err != nil || e != "" {
					panic(fmt.Sprint("setup refused: ", err, e))
				}
			}
			if e, err := d.sendEdge(id, parent, data.Points{{Type: data.PointTypeTombstone, Time: d.now()}, {Type: data.PointTypeNodeType, Text: typ}}); err != nil || e != "" {
				panic(fmt.Sprint("setup refused: ", err, e))
			}
			if !pointsFirst && len(pts) > 0 {
				if e, err := d.sendNode(id, pts); err != nil || e != "" {
					panic(fmt.Sprint("setup refused: ", err, e))
				}
			}
			d.Made = append(d.Made, id)
			return id
		}
		var setupErr any
		var vnodes, kids, others []string
		var grp, shelf, shelfKid string
		func() {
			defer func() { setupErr = recover() }()
			grp = mk(g.Root, "group", data.Points{{Type: "description", Time: d.now(), Text: "grp"}})
			grp2 := mk(grp, "group", nil)
			base := func() data.Points {
				return data.Points{{Type: "description", Time: d.now(), Text: "vn", Origin: "setup"}, {Type: "port", Time: d.now(), Value: 80, Origin: "setup"}, {Type: "tag", Key: "0", Time: d.now(), Text: "a", Origin: "setup"}, {Type: "opt", Key: "k1", Time: d.now(), Text: "v1", Origin: "setup"}}
			}
			vnodes = append(vnodes, mk(g.Root, "vNode", base()), mk(grp, "vNode", base()), mk(grp2, "vNode", base()))
			for k := 0; k < r.Intn(3); k++ {
				vnodes = append(vnodes, mk(g.Root, "vNode", base()))
			}
			// children carry timestamps of a lagging clock (one hour back) throughout, see the write phase
			kids = append(kids, mk(vnodes[0], "vChild", data.Points{{Type: "description", Time: d.now().Add(-time.Hour), Text: "kid0", Origin: "setup"}}), mk(vnodes[0], "vChild", data.Points{{Type: "description", Time: d.now().Add(-time.Hour), Text: "kid1", Origin: "setup"}}))
			kids = append(kids, mk(vnodes[1], "vChild", nil))
			// mirror vnodes[1] under the root as well: two placements, two clients
			if e, err := d.sendEdge(vnodes[1], g.Root, data.Points{{Type: data.PointTypeTombstone, Time: d.now()}, {Type: data.PointTypeNodeType, Text: "vNode"}}); err != nil || e != "" {
				panic(fmt.Sprint("mirror refused: ", err, e))
			}
			// one more client whose constructor is held back by the harness: a foreign point is written (and
			// acknowledged) while the client is being created from its snapshot, then the constructor goes on. The
			// client has to be told of that point afterwards (folded below like everything else)
			{
				gid := fmt.Sprintf("%s-n%d", d.tag, d.seq+1)
				release := v.mon.gateConstruct(gid)
				got := mk(g.Root, "vNode", base())
				if got != gid {
					release()
					panic("gated node: id mismatch " + got + " / " + gid)
				}
				entered := false
				for w := 0; w < 500 && !entered; w++ {
					for _, e := range v.mon.snapshot() {
						if e.Kind == "construct-entered" && e.Node == gid {
							entered = true
						}
					}
					if !entered {
						time.Sleep(20 * time.Millisecond)
					}
				}
				if entered {
					if e, err := d.sendNode(gid, data.Points{{Type: "description", Time: d.now(), Text: "written during construction", Origin: "user-x"}, {Type: "gain", Time: d.now(), Value: 2.5, Origin: "user-x"}}); err != nil || e != "" {
						release()
						panic(fmt.Sprint("setup refused: ", err, e))
					}
					c.Count("points_written_while_a_client_was_being_constructed", 1)
				}
				release()
				vnodes = append(vnodes, gid)
			}
			others = append(others, mk(g.Root, "variable", nil), mk(grp, "variable", nil))
			// a node with a child of its own, outside every client subtree (joins one later)
			shelf = mk(g.Root, "group", nil)
			shelfKid = mk(shelf, "variable", data.Points{{Type: "value", Time: d.now(), Value: 1, Origin: "setup"}})
		}()
		if setupErr != nil {
			c.Violate("store:legal-write-refused", fmt.Sprint(setupErr), v.wit(nil))
			return
		}
		if _, bad, err := v.quiesce(); err != nil || bad != "" {
			if err != nil {
				c.Inconclusive(err.Error())
			} else {
				c.Violate("manager:running-set-wrong:c08-setup", bad, v.wit(nil))
			}
			return
		}
		// a barrier before the write phase: every client has been handed a begin marker written to its node, so
		// that whatever the set-up wrote (and the bus may still be delivering on a busy machine) lies before it
		for _, vn := range vnodes {
			if e, err := d.sendNode(vn, data.Points{{Type: "vbegin", Time: d.now(), Text: "begin-" + vn, Origin: "marker-author"}}); err != nil || e != "" {
				c.Violate("store:legal-write-refused", fmt.Sprint(err, e), v.wit(nil))
				return
			}
		}
		{
			doneB := wd.Watch("client-delivery:marker-not-delivered", v.wit(nil), 60*time.Second, true)
			for {
				evs := v.mon.snapshot()
				got := map[int64]bool{}
				for _, e := range evs {
					if e.Kind == "points" && len(e.Points) == 1 && e.Points[0].Type == "vbegin" {
						got[e.Client] = true
					}
				}
				all := true
				for _, cl := range runningClients(evs) {
					if !got[cl[0].Client] {
						all = false
					}
				}
				if all {
					break
				}
				time.Sleep(2 * time.Millisecond)
			}
			doneB()
		}
		startSeq := v.mon.mark("writes-begin")
		// ---- write phase
		var sent []sentBatch
		lastSent := map[string]data.Point{}
		// the points the clients were started with count as "the last write" of their identities: a
		// rewrite with the very same timestamp and other content is still a change the client must be told of
		for _, t := range append(append([]string{}, vnodes...), kids...) {
			for ik, p := range g.NodeP[t] {
				lastSent[t+"|"+ik[0]+"/"+ik[1]] = p
				if ik[1] == "0" {
					lastSent[t+"|"+ik[0]+"/"] = p
				}
			}
		}
		nB := 30 + r.Intn(c.N(60, 170))
		allTargets := append(append(append(append([]string{}, vnodes...), kids...), others...), grp)
		for k := 0; k < nB; k++ {
			t := allTargets[r.Intn(len(allTargets))]
			origin := []string{"", "", vnodes[r.Intn(len(vnodes))], kids[r.Intn(len(kids))], "user-x", "user-x"}[r.Intn(6)]
			if r.Chance(0.3) && g.Types[t] == "vNode" {
				origin = t // self-authored by id
			}
			sb := sentBatch{N: k, Node: t, Origin: origin}
			if r.Chance(0.2) {
				// edge batch on one of t's placements (never tombstone / nodeType: those restart, C07)
				ps := g.Parents(t, true)
				sb.Edge, sb.Parent = true, ps[r.Intn(len(ps))]
				sb.Points = data.Points{{Type: "role", Time: d.now(), Text: "r" + r.Ident(3), Origin: origin}}
				if r.Chance(0.3) {
					sb.Points = append(sb.Points, data.Point{Type: "sortOrder", Time: d.now(), Value: float64(k), Origin: origin})
				}
			} else {
				n := 1 + r.Intn(3)
				seen := map[string]bool{}
				for q := 0; q < n; q++ {
					var p data.Point
					switch r.Intn(7) {
					case 6:
						// types that mean something to other parts of the application: to this client they are
						// points like any other
						p = data.Point{Type: []string{"pass", "email", "token", "authToken", "disabled", "error", "active", "trigger", "uri", "period"}[r.Intn(10)], Text: "s" + r.Ident(3), Value: float64(r.Intn(3))}
					case 0:
						p = data.Point{Type: "description", Text: "d" + r.Ident(4)}
					case 1:
						p = data.Point{Type: "port", Value: float64(r.Intn(60000))}
					case 2:
						p = data.Point{Type: "gain", Value: float64(r.Intn(1000)) / 8}
					case 3:
						p = data.Point{Type: "tag", Key: fmt.Sprint(r.Intn(3)), Text: "t" + r.Ident(2)}
					case 4:
						p = data.Point{Type: "opt", Key: []string{"k1", "k2", "k3"}[r.Intn(3)], Text: "o" + r.Ident(2)}
						if r.Chance(0.3) {
							p.Tombstone = 1
						}
					default:
						p = data.Point{Type: "level", Value: float64(r.Intn(10))}
					}
					if seen[p.Type+"/"+p.Key] {
						continue
					}
					seen[p.Type+"/"+p.Key] = true
					p.Time, p.Origin = d.now(), origin
					lk := t + "|" + p.Type + "/" + p.Key
					if prev, ok := lastSent[lk]; ok && r.Chance(0.2) {
						// same timestamp as the last write to this identity (timestamps are only non-decreasing), other content
						p.Time = prev.Time
						if g.Types[t] == "vChild" {
							p.Time = p.Time.Add(time.Hour) // undone by the lagging-clock shift below
						}
						if p.Type == "opt" {
							p.Text, p.Tombstone = prev.Text, 1-prev.Tombstone%2
						}
					}
					if g.Types[t] == "vChild" {
						// a device below with a lagging clock: older than anything on the client's own node, still
						// increasing per identity
						p.Time = p.Time.Add(-time.Hour)
					}
					sb.Points = append(sb.Points, p)
					lastSent[lk] = p
				}
				if len(sb.Points) > 0 && r.Chance(0.06) {
					// a large batch (13-40 points) in which identities occur several times with one and the same time
					// stamp: the last one in the batch is what the store keeps and what the client ends up with
					for len(sb.Points) < 13+r.Intn(28) {
						p := sb.Points[r.Intn(len(sb.Points))]
						switch p.Type {
						case "description", "tag", "opt":
							p.Text = "b" + r.Ident(3)
						default:
							p.Value = float64(r.Intn(50))
						}
						if p.Type == "port" {
							p.Value = float64(r.Intn(60000))
						}
						sb.Points = append(sb.Points, p)
						lastSent[t+"|"+p.Type+"/"+p.Key] = p
					}
					c.Count("large_batches_with_repeated_identities", 1)
				}
			}
			var e string
			var err error
			if sb.Edge {
				e, err = d.sendEdge(sb.Node, sb.Parent, sb.Points)
			} else {
				e, err = d.sendNode(sb.Node, sb.Points)
			}
			c.Eval(1)
			if err != nil || e != "" {
				c.Violate("store:legal-write-refused", fmt.Sprint(err, e), v.wit(nil))
				return
			}
			sent = append(sent, sb)
		}
		// ---- markers: one per client node, foreign origin
		markers := map[string]sentBatch{}
		for _, vn := range vnodes {
			sb := sentBatch{N: len(sent), Node: vn, Origin: "marker-author", Points: data.Points{{Type: "vmarker", Time: d.now(), Text: "end-" + vn, Origin: "marker-author"}}}
			if e, err := d.sendNode(vn, sb.Points); err != nil || e != "" {
				c.Violate("store:legal-write-refused", fmt.Sprint(err, e), v.wit(nil))
				return
			}
			sent = append(sent, sb)
			markers[vn] = sb
		}
		// the clients running now (constructed before the write phase)
		evs := v.mon.snapshot()
		running := runningClients(evs)
		done := wd.Watch("client-delivery:marker-not-delivered", v.wit(nil), 60*time.Second, true)
		for {
			evs = v.mon.snapshot()
			got := map[int64]bool{}
			for _, e := range evs {
				if e.Kind == "points" && len(e.Points) == 1 && e.Points[0].Type == "vmarker" && strings.HasPrefix(e.Points[0].Text, "end-") {
					got[e.Client] = true // (the end marker, not one of the barrier markers of the settling rounds before)
				}
			}
			all := true
			for _, cl := range running {
				if !got[cl[0].Client] {
					all = false
				}
			}
			if all {
				break
			}
			time.Sleep(2 * time.Millisecond)
		}
		done()
		// (what the comparison looks at is taken once more after a short pause: the markers close the streams,
		// the monitor's list is read when nothing is being added to it)
		time.Sleep(150 * time.Millisecond)
		evs = v.mon.snapshot()
		// ---- per client comparison
		for key, cl := range running {
			cfg := *cl[0].Config
			id, parent := cfg.ID, cfg.Parent
			desc := map[string]bool{id: true}
			for _, k := range g.Children(id, true) {
				desc[k] = true
			}
			var delivered []vEvent
			for _, e := range evs {
				if e.Client == cl[0].Client && e.Seq > startSeq && (e.Kind == "points" || e.Kind == "edgePoints") {
					delivered = append(delivered, e)
				}
			}
			j := 0
			fold := cfg
			fold.Kids = append([]VChild{}, cfg.Kids...)
			fold.Tags = append([]string{}, cfg.Tags...)
			fold.Opts = map[string]string{}
			for k, x := range cfg.Opts {
				fold.Opts[k] = x
			}
			// deliveries made before the write phase (set-up points that arrived after construction) are folded first
			for _, e := range evs {
				if e.Client == cl[0].Client && e.Seq <= startSeq {
					switch e.Kind {
					case "points":
						_ = data.MergePoints(e.Node, e.Points, &fold)
					case "edgePoints":
						if e.Node == id && e.Parent == parent {
							_ = data.MergeEdgePoints(e.Node, e.Parent, e.Points, &fold)
						}
					}
				}
			}
			w := func(extra map[string]any) map[string]any {
				var dl []map[string]any
				for _, e := range delivered {
					dl = append(dl, map[string]any{"kind": e.Kind, "node": e.Node, "parent": e.Parent, "points": witnessPoints(e.Points)})
				}
				m := v.wit(map[string]any{"client": key, "delivered": dl})
				for k, x := range extra {
					m[k] = x
				}
				return m
			}
			for _, s := range sent {
				if !desc[s.Node] {
					// not in this client's subtree: must never be delivered
					if j < len(delivered) && sameBatch(delivered[j], s) {
						c.Violate("client-delivery:foreign-subtree-delivered", fmt.Sprintf("client %s was told of batch %d for node %s outside its subtree", key, s.N, s.Node), w(nil))
						return
					}
					continue
				}
				class := "must"
				if !s.Edge {
					switch {
					case s.Origin == id, s.Origin == "" && s.Node == id:
						class = "mustnot"
					case s.Origin == "":
						class = "may"
					}
				} else if s.Node == id && s.Parent != parent {
					// edge points of the node's other placement reach this client as well (rebroadcast goes through every edge); not demanded either way
					class = "may"
				}
				matched := j < len(delivered) && sameBatch(delivered[j], s)
				kind := "node"
				if s.Edge {
					kind = "edge"
				}
				tk := "own"
				if s.Node != id {
					tk = "child"
				}
				ok := map[bool]string{true: "delivered", false: "withheld"}[matched]
				c.Distinct(fmt.Sprintf("%s %s origin=%s %s %s", tk, kind, originKind(s.Origin, id), class, ok))
				switch {
				case matched && class == "mustnot":
					c.Violate("client-delivery:own-points-echoed", fmt.Sprintf("client %s was told of batch %d it authored itself (origin %q on %s)", key, s.N, s.Origin, s.Node), w(nil))
					return
				case !matched && class == "must":
					sig := "client-delivery:foreign-change-lost-or-reordered"
					c.Violate(sig, fmt.Sprintf("client %s: batch %d (origin %q, node %s, edge=%v) is not the next delivery", key, s.N, s.Origin, s.Node, s.Edge), w(map[string]any{"expected_batch": witnessPoints(s.Points), "position": j}))
					return
				}
				if matched {
					j++
					c.Count("deliveries_matched", 1)
				}
				// fold what the client knows
				if matched || class == "mustnot" || class == "may" {
					var err error
					if s.Edge {
						if s.Node == id && s.Parent == parent {
							err = data.MergeEdgePoints(s.Node, s.Parent, s.Points, &fold)
						}
					} else {
						err = data.MergePoints(s.Node, s.Points, &fold)
					}
					if err != nil {
						c.Violate("client-delivery:fold-error", "merging delivered points failed: "+err.Error(), w(nil))
						return
					}
				}
			}
			if j != len(delivered) {
				c.Violate("client-delivery:unexpected-delivery", fmt.Sprintf("client %s received %d deliveries that no accepted write explains (first at position %d)", key, len(delivered)-j, j), w(nil))
				return
			}
			// fold == store (only when nothing optional was withheld the comparison is exact; '' on children is delivered by the code, so compare always and classify)
			nodes, err := client.GetNodes(v.nc, parent, id, "", false)
			if err != nil || len(nodes) != 1 {
				c.Inconclusive(fmt.Sprint("read back failed: ", err))
				return
			}
			ch, _ := client.GetNodes(v.nc, id, "all", "", false)
			nec := data.NodeEdgeChildren{NodeEdge: nodes[0]}
			for _, k := range ch {
				nec.Children = append(nec.Children, data.NodeEdgeChildren{NodeEdge: k})
			}
			var fromStore VNode
			if err := data.Decode(nec, &fromStore); err != nil {
				c.Inconclusive("decode of store content failed: " + err.Error())
				return
			}
			// the marker point is not part of VNode; children order may differ
			sortKids := func(x *VNode) {
				ks := x.Kids
				for a := 0; a < len(ks); a++ {
					for b := a + 1; b < len(ks); b++ {
						if ks[b].ID < ks[a].ID {
							ks[a], ks[b] = ks[b], ks[a]
						}
					}
				}
			}
			sortKids(&fold)
			sortKids(&fromStore)
			if diff := eqValM(reflect.ValueOf(fromStore), reflect.ValueOf(fold), "", false); diff != "" {
				c.Violate("client-delivery:folded-config-differs-from-store", fmt.Sprintf("client %s: %s (store vs folded)", key, diff), w(map[string]any{"store": fmt.Sprintf("%+v", fromStore), "folded": fmt.Sprintf("%+v", fold)}))
				return
			}
			c.Count("fold_checks", 1)
		}
		// ---- a node joins a client's subtree while it is being written to: afterwards, at rest, the
		// client must be told of foreign changes to the newcomer
		if i%2 == 0 {
			cnode, k := vnodes[0], others[r.Intn(len(others))]
			below := k // the node the foreign point is written to afterwards
			if r.Chance(0.5) {
				// a whole branch joins: the point is then written two levels below the client node
				k, below = shelf, shelfKid
				if e, err := d.sendNode(below, data.Points{{Type: "value", Time: d.now(), Value: 2, Origin: "user-x"}}); err != nil || e != "" {
					c.Violate("store:legal-write-refused", fmt.Sprint(err, e), v.wit(nil))
					return
				}
			}
			nc2, err := v.in.Connect()
			if err != nil {
				c.Inconclusive(err.Error())
				return
			}
			stop := make(chan struct{})
			var wg sync.WaitGroup
			var wErr error
			base := d.now().UnixNano() + int64(time.Hour)
			wrote := 0
			wg.Add(1)
			go func() {
				defer wg.Done()
				for q := 0; ; q++ {
					select {
					case <-stop:
						return
					default:
					}
					e, err := vlib.SendAck(nc2, vlib.NodeSubj(below), data.Points{{Type: "busy", Time: time.Unix(0, base+int64(q)), Value: float64(q), Origin: "user-x"}})
					if err != nil || e != "" {
						wErr = fmt.Errorf("concurrent writer: %v %s", err, e)
						return
					}
					wrote++
				}
			}()
			time.Sleep(time.Duration(r.Intn(3000)) * time.Microsecond)
			e, err := d.sendEdge(k, cnode, data.Points{{Type: data.PointTypeTombstone, Time: d.now()}, {Type: data.PointTypeNodeType, Text: g.Types[k]}})
			nTog := 2 * r.Intn(3) // even: the node ends up attached
			for t := 0; t < nTog && err == nil && e == ""; t++ {
				// ... and is detached and attached again
				time.Sleep(time.Duration(r.Intn(2000)) * time.Microsecond)
				e, err = d.sendEdge(k, cnode, data.Points{{Type: data.PointTypeTombstone, Time: d.now(), Value: float64(1 - t%2)}})
			}
			time.Sleep(time.Duration(r.Intn(3000)) * time.Microsecond)
			close(stop)
			wg.Wait()
			nc2.Close()
			if err != nil || e != "" || wErr != nil {
				c.Violate("store:legal-write-refused", fmt.Sprint("attach below a client node: ", err, e, wErr), v.wit(nil))
				return
			}
			if _, bad, err := v.quiesce(); err != nil || bad != "" {
				if err != nil {
					c.Inconclusive(err.Error())
				} else {
					c.Violate("manager:running-set-wrong:c08-attach", bad, v.wit(nil))
				}
				return
			}
			mk := data.Points{{Type: "joined", Time: time.Unix(0, base+int64(time.Hour)), Text: "after-attach-" + k, Origin: "user-x"}}
			if e, err := d.sendNode(below, mk); err != nil || e != "" {
				c.Violate("store:legal-write-refused", fmt.Sprint(err, e), v.wit(nil))
				return
			}
			// barrier: a marker on the client's own node, written after it, arrives after it
			end := data.Points{{Type: "vmarker", Time: d.now(), Text: "end2-" + cnode, Origin: "marker-author"}}
			if e, err := d.sendNode(cnode, end); err != nil || e != "" {
				c.Violate("store:legal-write-refused", fmt.Sprint(err, e), v.wit(nil))
				return
			}
			var clientNo int64 = -1
			for key, cl := range runningClients(v.mon.snapshot()) {
				if strings.HasSuffix(key, "/"+cnode) {
					clientNo = cl[0].Client
				}
			}
			if clientNo < 0 {
				c.Violate("manager:running-set-wrong:c08-attach", "no running client for "+cnode+" after the attach", v.wit(nil))
				return
			}
			done := wd.Watch("client-delivery:marker-not-delivered", v.wit(map[string]any{"phase": "attach"}), 60*time.Second, true)
			told, barrier := false, false
			for !barrier {
				for _, e := range v.mon.snapshot() {
					if e.Client != clientNo || e.Kind != "points" {
						continue
					}
					for _, p := range e.Points {
						if e.Node == below && p.Type == "joined" && p.Text == mk[0].Text {
							told = true
						}
						if p.Type == "vmarker" && p.Text == end[0].Text {
							barrier = true
						}
					}
				}
				if !barrier {
					time.Sleep(2 * time.Millisecond)
				}
			}
			done()
			c.Eval(1)
			if !told {
				c.Violate("client-delivery:foreign-change-lost-or-reordered:after-concurrent-attach", fmt.Sprintf("node %s was attached below client node %s while %d writes to %s were in flight; at rest afterwards a foreign point written to %s did not reach the client", k, cnode, wrote, below, below), v.wit(map[string]any{"attached": k, "client_node": cnode}))
				return
			}
			c.Count("checked_after_concurrent_attach", 1)
			c.Count("writes_during_attach", int64(wrote))
		}
		// ---- a client that is busy while a burst of foreign changes is accepted: it must be told of all of
		// them, in order, once it takes points again
		if i%16 == 1 {
			cnode := vnodes[len(vnodes)-1]
			var clientNo int64 = -1
			for key, cl := range runningClients(v.mon.snapshot()) {
				if strings.HasSuffix(key, "/"+cnode) {
					clientNo = cl[0].Client
				}
			}
			if clientNo >= 0 {
				release := v.mon.hold(clientNo)
				const nBurst = 1500
				base := d.now().UnixNano() + int64(2*time.Hour)
				var werr error
				for q := 0; q < nBurst && werr == nil; q++ {
					e, err := vlib.SendAck(v.nc, vlib.NodeSubj(cnode), data.Points{{Type: "burst", Time: time.Unix(0, base+int64(q)), Value: float64(q), Origin: "user-x"}})
					if err != nil || e != "" {
						werr = fmt.Errorf("burst write %d: %v %s", q, err, e)
					}
				}
				release()
				if werr != nil {
					c.Violate("store:legal-write-refused", werr.Error(), v.wit(nil))
					return
				}
				end := data.Points{{Type: "vmarker", Time: time.Unix(0, base+int64(time.Hour)), Text: "end3-" + cnode, Origin: "marker-author"}}
				if e, err := vlib.SendAck(v.nc, vlib.NodeSubj(cnode), end); err != nil || e != "" {
					c.Violate("store:legal-write-refused", fmt.Sprint(err, e), v.wit(nil))
					return
				}
				done := wd.Watch("client-delivery:marker-not-delivered", v.wit(map[string]any{"phase": "burst"}), 90*time.Second, true)
				next, barrier := 0, false
				bad := ""
				for !barrier && bad == "" {
					next = 0
					for _, e := range v.mon.snapshot() {
						if e.Client != clientNo || e.Kind != "points" {
							continue
						}
						for _, p := range e.Points {
							if p.Type == "burst" {
								if int(p.Value) != next {
									bad = fmt.Sprintf("the busy client of %s was told of burst write %d where write %d was due (%d accepted in all)", cnode, int(p.Value), next, nBurst)
								}
								next++
							}
							if p.Type == "vmarker" && p.Text == end[0].Text {
								barrier = true
							}
						}
						if bad != "" {
							break
						}
					}
					if !barrier && bad == "" {
						time.Sleep(5 * time.Millisecond)
					}
				}
				done()
				if bad == "" && next != nBurst {
					bad = fmt.Sprintf("the busy client of %s was told of %d of %d accepted foreign writes before the closing marker", cnode, next, nBurst)
				}
				c.Eval(nBurst)
				if bad != "" {
					c.Violate("client-delivery:foreign-change-lost-or-reordered:burst-while-busy", bad, map[string]any{"case": i, "seed": c.Seed, "client_node": cnode})
					return
				}
				c.Count("bursts_delivered_to_a_busy_client", 1)
			}
		}
		if i < 2 {
			c.Sample(map[string]any{"clients": len(running), "batches": len(sent)})
		}
	})
	c.Require("deliveries_matched", 200)
	c.Require("fold_checks", 20)
	return c.Finish()
}

func originKind(o, id string) string {
	switch {
	case o == "":
		return "empty"
	case o == id:
		return "self"
	case o == "user-x":
		return "user"
	default:
		return "other-node"
	}
}
