// Package checks holds one workload+monitor per property.
package checks

// Registry maps property id to its check; each returns the exit code.
var Registry = map[string]func(tier string, args []string) int{}
