package checks

import (
	"fmt"
	"math"
	"reflect"
	"strings"

	"verifharness/internal/vlib"
)

// Random configuration struct types built with reflect.StructOf, and values of
// them. Shared by C10 (round trips) and C11 (totality of decoding).

var scalarTypes = []reflect.Type{
	reflect.TypeOf(false), reflect.TypeOf(int(0)), reflect.TypeOf(int8(0)), reflect.TypeOf(int16(0)),
	reflect.TypeOf(int32(0)), reflect.TypeOf(int64(0)), reflect.TypeOf(uint(0)), reflect.TypeOf(uint8(0)),
	reflect.TypeOf(uint16(0)), reflect.TypeOf(uint32(0)), reflect.TypeOf(uint64(0)),
	reflect.TypeOf(float32(0)), reflect.TypeOf(float64(0)), reflect.TypeOf(""),
}

// fieldSpec describes one generated field
type fieldSpec struct {
	Name  string
	Tag   string // point / edgepoint / node / child
	PType string // point type (tag value)
	Shape string // scalar, ptr, ptrstruct, slice, array, map, struct, id, parent, child
}

type genType struct {
	T      reflect.Type
	Fields []fieldSpec
	Child  *genType // type of child elements, if any child field
}

func (g *genType) describe() string {
	var sb strings.Builder
	for i := 0; i < g.T.NumField(); i++ {
		f := g.T.Field(i)
		fmt.Fprintf(&sb, "%s %s `%s`; ", f.Name, f.Type, f.Tag)
	}
	return sb.String()
}

func flatStructType(r *vlib.R, tagged bool) reflect.Type {
	n := 1 + r.Intn(4)
	fs := make([]reflect.StructField, n)
	for i := range fs {
		fs[i] = reflect.StructField{Name: fmt.Sprintf("Fld%c%d", 'A'+i, i), Type: scalarTypes[r.Intn(len(scalarTypes))]}
		if r.Chance(0.25) {
			// an optional field inside the flat struct (nil <-> tombstone point with the field's key)
			fs[i].Type = reflect.PointerTo(fs[i].Type)
		}
		if tagged && r.Chance(0.5) {
			fs[i].Tag = reflect.StructTag(fmt.Sprintf(`point:"k%d"`, i))
		}
	}
	return reflect.StructOf(fs)
}

// genConfigType builds a random supported configuration type. bigOK allows
// 1000-element arrays. withChild adds a child slice field.
func genConfigType(r *vlib.R, withChild bool, depth int) *genType {
	g := &genType{}
	var fs []reflect.StructField
	// the id / parent fields usually come first, but nothing says they must: in a quarter of the types they
	// follow the first point field or close the struct
	withParent := r.Chance(0.7)
	idAt := 0
	switch r.Intn(8) {
	case 0:
		idAt = 1
	case 1:
		idAt = -1 // last
	}
	addNodeFields := func() {
		fs = append(fs, reflect.StructField{Name: "ID", Type: reflect.TypeOf(""), Tag: `node:"id"`})
		g.Fields = append(g.Fields, fieldSpec{Name: "ID", Tag: "node", Shape: "id"})
		if withParent {
			fs = append(fs, reflect.StructField{Name: "Parent", Type: reflect.TypeOf(""), Tag: `node:"parent"`})
			g.Fields = append(g.Fields, fieldSpec{Name: "Parent", Tag: "node", Shape: "parent"})
		}
	}
	if idAt == 0 {
		addNodeFields()
	}
	n := 1 + r.Intn(7)
	namesOf := map[string][]string{}
	var lastPtrStruct reflect.Type
	for i := 0; i < n; i++ {
		if i == 1 && idAt == 1 {
			addNodeFields()
			idAt = 0
		}
		name := fmt.Sprintf("F%d", i)
		tagKind := "point"
		if r.Chance(0.2) {
			tagKind = "edgepoint"
		}
		ptype := fmt.Sprintf("%s%d", map[string]string{"point": "pt", "edgepoint": "ep"}[tagKind], i)
		// a node point field and an edge point field may carry the same type name (two name spaces): every
		// fourth field of the other kind reuses a name already taken on the other side
		if other := namesOf[map[string]string{"point": "edgepoint", "edgepoint": "point"}[tagKind]]; len(other) > 0 && r.Chance(0.25) {
			cand := other[r.Intn(len(other))]
			taken := false
			for _, x := range namesOf[tagKind] {
				if x == cand {
					taken = true
				}
			}
			if !taken {
				ptype = cand
			}
		}
		namesOf[tagKind] = append(namesOf[tagKind], ptype)
		var t reflect.Type
		shape := ""
		el := scalarTypes[r.Intn(len(scalarTypes))]
		switch r.Intn(9) {
		case 0, 1:
			t, shape = el, "scalar"
		case 2:
			t, shape = reflect.PointerTo(el), "ptr"
		case 3:
			t, shape = reflect.PointerTo(flatStructType(r, r.Chance(0.5))), "ptrstruct"
			if lastPtrStruct != nil && r.Chance(0.5) {
				// two fields of one struct type: whatever the codec remembers per type is shared by them
				t = lastPtrStruct
			}
			lastPtrStruct = t
		case 4, 5:
			t, shape = reflect.SliceOf(el), "slice"
		case 6:
			t, shape = reflect.ArrayOf(1+r.Intn(5), el), "array"
		case 7:
			t, shape = reflect.MapOf(reflect.TypeOf(""), el), "map"
		case 8:
			t, shape = flatStructType(r, r.Chance(0.5)), "struct"
		}
		fs = append(fs, reflect.StructField{Name: name, Type: t, Tag: reflect.StructTag(fmt.Sprintf(`%s:"%s"`, tagKind, ptype))})
		g.Fields = append(g.Fields, fieldSpec{Name: name, Tag: tagKind, PType: ptype, Shape: shape})
	}
	if idAt != 0 {
		addNodeFields()
	}
	if withChild && depth < 2 {
		g.Child = genConfigType(r, r.Chance(0.3), depth+1)
		fs = append(fs, reflect.StructField{Name: "Kids", Type: reflect.SliceOf(g.Child.T), Tag: `child:"kidType"`})
		g.Fields = append(g.Fields, fieldSpec{Name: "Kids", Tag: "child", PType: "kidType", Shape: "child"})
	}
	g.T = reflect.StructOf(fs)
	return g
}

func genScalar(r *vlib.R, t reflect.Type) reflect.Value {
	v := reflect.New(t).Elem()
	const maxSafe = 1<<53 - 1
	switch t.Kind() {
	case reflect.Bool:
		v.SetBool(r.Chance(0.5))
	case reflect.Int, reflect.Int8, reflect.Int16, reflect.Int32, reflect.Int64:
		bits := t.Bits()
		var lo, hi int64
		if bits == 64 {
			lo, hi = -maxSafe, maxSafe
		} else {
			lo, hi = -(1 << (bits - 1)), 1<<(bits-1)-1
		}
		switch r.Intn(6) {
		case 0:
			v.SetInt(lo)
		case 1:
			v.SetInt(hi)
		case 2:
			v.SetInt(0)
		case 3:
			v.SetInt(int64(r.Intn(200) - 100))
		default:
			v.SetInt(lo + r.Int63n(hi-lo) + int64(r.Intn(2)))
		}
	case reflect.Uint, reflect.Uint8, reflect.Uint16, reflect.Uint32, reflect.Uint64:
		bits := t.Bits()
		var hi uint64 = maxSafe
		if bits < 64 {
			hi = 1<<uint(bits) - 1
		}
		switch r.Intn(5) {
		case 0:
			v.SetUint(hi)
		case 1:
			v.SetUint(0)
		case 2:
			v.SetUint(uint64(r.Intn(100)))
		default:
			v.SetUint(uint64(r.Int63n(int64(hi))) + uint64(r.Intn(2)))
		}
	case reflect.Float32:
		switch r.Intn(5) {
		case 0:
			v.SetFloat(float64(math.Float32frombits(0x7fc00000))) // canonical quiet NaN
		case 1:
			v.SetFloat(float64([]float32{0, float32(math.Copysign(0, -1)), math.MaxFloat32, -math.MaxFloat32, math.SmallestNonzeroFloat32, float32(math.Inf(1)), float32(math.Inf(-1))}[r.Intn(7)]))
		default:
			for {
				f := math.Float32frombits(r.Uint32())
				if f == f {
					v.SetFloat(float64(f))
					break
				}
			}
		}
	case reflect.Float64:
		switch r.Intn(5) {
		case 0:
			v.SetFloat(math.Float64frombits(0x7ff8000000000000 | uint64(r.Int63())&0x0007ffffffffffff | uint64(r.Intn(2))<<63))
		default:
			v.SetFloat(r.Float())
		}
	case reflect.String:
		v.SetString(r.Str())
	}
	return v
}

func mapKey(r *vlib.R) string {
	for {
		k := r.Str()
		if k != "" {
			return k
		}
	}
}

func genFlatStruct(r *vlib.R, t reflect.Type) reflect.Value {
	v := reflect.New(t).Elem()
	for i := 0; i < t.NumField(); i++ {
		v.Field(i).Set(genFlatField(r, t.Field(i).Type))
	}
	return v
}

// genFlatField generates a field of a flat struct: a scalar or an optional scalar.
func genFlatField(r *vlib.R, t reflect.Type) reflect.Value {
	if t.Kind() == reflect.Pointer {
		if r.Chance(0.4) {
			return reflect.Zero(t)
		}
		p := reflect.New(t.Elem())
		p.Elem().Set(genScalar(r, t.Elem()))
		return p
	}
	return genScalar(r, t)
}

// genShapeValue generates a value of a field type.
func genShapeValue(r *vlib.R, t reflect.Type, maxLen int) reflect.Value {
	switch t.Kind() {
	case reflect.Pointer:
		if r.Chance(0.3) {
			return reflect.Zero(t)
		}
		p := reflect.New(t.Elem())
		if t.Elem().Kind() == reflect.Struct {
			p.Elem().Set(genFlatStruct(r, t.Elem()))
		} else {
			p.Elem().Set(genScalar(r, t.Elem()))
		}
		return p
	case reflect.Slice:
		n := r.Intn(6)
		switch r.Intn(12) {
		case 0:
			return reflect.Zero(t)
		case 1:
			n = maxLen
		case 2:
			n = r.Intn(maxLen + 1)
		}
		s := reflect.MakeSlice(t, n, n+r.Intn(3))
		for i := 0; i < n; i++ {
			s.Index(i).Set(genScalar(r, t.Elem()))
		}
		return s
	case reflect.Array:
		a := reflect.New(t).Elem()
		for i := 0; i < t.Len(); i++ {
			a.Index(i).Set(genScalar(r, t.Elem()))
		}
		return a
	case reflect.Map:
		if r.Chance(0.15) {
			return reflect.Zero(t)
		}
		n := r.Intn(5)
		if r.Chance(0.05) {
			n = r.Intn(maxLen + 1)
		}
		m := reflect.MakeMap(t)
		for i := 0; i < n; i++ {
			k := mapKey(r)
			if i > 8 {
				k = fmt.Sprintf("%s#%d", k, i)
			}
			m.SetMapIndex(reflect.ValueOf(k), genScalar(r, t.Elem()))
		}
		return m
	case reflect.Struct:
		return genFlatStruct(r, t)
	default:
		return genScalar(r, t)
	}
}

// genConfigValue generates a value of a generated config type.
func genConfigValue(r *vlib.R, g *genType, maxLen int, id string) reflect.Value {
	v := reflect.New(g.T).Elem()
	for i, f := range g.Fields {
		switch f.Shape {
		case "id":
			v.Field(i).SetString(id)
		case "parent":
			v.Field(i).SetString("par-" + r.Ident(3))
		case "child":
			n := r.Intn(3)
			s := reflect.MakeSlice(g.T.Field(i).Type, n, n)
			for j := 0; j < n; j++ {
				s.Index(j).Set(genConfigValue(r, g.Child, 8, fmt.Sprintf("%s-k%d", id, j)))
			}
			v.Field(i).Set(s)
		default:
			v.Field(i).Set(genShapeValue(r, g.T.Field(i).Type, maxLen))
		}
	}
	return v
}

// eqVal is deep equality with nil ≡ empty for slices and maps and floats
// compared by bit pattern. Returns "" or the path of the first difference.
func eqVal(a, b reflect.Value, path string) string { return eqValM(a, b, path, true) }

// eqValM: with bits=false floats compare numerically (+0 == -0, NaN == NaN),
// which is all a diff based on == can promise.
func eqValM(a, b reflect.Value, path string, bits bool) string {
	if !bits && (a.Kind() == reflect.Float32 || a.Kind() == reflect.Float64) {
		x, y := a.Float(), b.Float()
		if x == y || (x != x && y != y) {
			return ""
		}
		return fmt.Sprintf("%s: %v != %v", path, x, y)
	}
	if a.Type() != b.Type() {
		return path + ":type"
	}
	switch a.Kind() {
	case reflect.Float32:
		if math.Float32bits(float32(a.Float())) != math.Float32bits(float32(b.Float())) {
			return fmt.Sprintf("%s: %v != %v", path, a.Float(), b.Float())
		}
	case reflect.Float64:
		if math.Float64bits(a.Float()) != math.Float64bits(b.Float()) {
			return fmt.Sprintf("%s: %v(%x) != %v(%x)", path, a.Float(), math.Float64bits(a.Float()), b.Float(), math.Float64bits(b.Float()))
		}
	case reflect.Pointer:
		// a struct all of whose fields are optional and nil has no representation of its own: it
		// encodes to tombstone points only, exactly like a nil pointer to that struct
		if nilLike(a) && nilLike(b) {
			return ""
		}
		if a.IsNil() != b.IsNil() {
			return fmt.Sprintf("%s: nil=%v vs nil=%v", path, a.IsNil(), b.IsNil())
		}
		if !a.IsNil() {
			return eqValM(a.Elem(), b.Elem(), path+"*", bits)
		}
	case reflect.Slice, reflect.Array:
		if a.Len() != b.Len() {
			return fmt.Sprintf("%s: len %d != %d", path, a.Len(), b.Len())
		}
		for i := 0; i < a.Len(); i++ {
			if d := eqValM(a.Index(i), b.Index(i), fmt.Sprintf("%s[%d]", path, i), bits); d != "" {
				return d
			}
		}
	case reflect.Map:
		if a.Len() != b.Len() {
			return fmt.Sprintf("%s: maplen %d != %d", path, a.Len(), b.Len())
		}
		it := a.MapRange()
		for it.Next() {
			bv := b.MapIndex(it.Key())
			if !bv.IsValid() {
				return fmt.Sprintf("%s[%q] missing", path, it.Key().String())
			}
			if d := eqValM(it.Value(), bv, fmt.Sprintf("%s[%q]", path, it.Key().String()), bits); d != "" {
				return d
			}
		}
	case reflect.Struct:
		for i := 0; i < a.NumField(); i++ {
			if d := eqValM(a.Field(i), b.Field(i), path+"."+a.Type().Field(i).Name, bits); d != "" {
				return d
			}
		}
	default:
		if !a.Equal(b) {
			return fmt.Sprintf("%s: %v != %v", path, a.Interface(), b.Interface())
		}
	}
	return ""
}

// nilLike: a nil pointer, or a pointer to a struct whose fields are all nil pointers.
func nilLike(p reflect.Value) bool {
	if p.IsNil() {
		return true
	}
	e := p.Elem()
	if e.Kind() != reflect.Struct || e.NumField() == 0 {
		return false
	}
	for i := 0; i < e.NumField(); i++ {
		if e.Field(i).Kind() != reflect.Pointer || !e.Field(i).IsNil() {
			return false
		}
	}
	return true
}

// deepCopy copies a value so that later mutation of the original is visible.
func deepCopy(v reflect.Value) reflect.Value {
	out := reflect.New(v.Type()).Elem()
	switch v.Kind() {
	case reflect.Pointer:
		if !v.IsNil() {
			p := reflect.New(v.Type().Elem())
			p.Elem().Set(deepCopy(v.Elem()))
			out.Set(p)
		}
	case reflect.Slice:
		if !v.IsNil() {
			s := reflect.MakeSlice(v.Type(), v.Len(), v.Cap())
			for i := 0; i < v.Len(); i++ {
				s.Index(i).Set(deepCopy(v.Index(i)))
			}
			out.Set(s)
		}
	case reflect.Array:
		for i := 0; i < v.Len(); i++ {
			out.Index(i).Set(deepCopy(v.Index(i)))
		}
	case reflect.Map:
		if !v.IsNil() {
			m := reflect.MakeMap(v.Type())
			it := v.MapRange()
			for it.Next() {
				m.SetMapIndex(it.Key(), deepCopy(it.Value()))
			}
			out.Set(m)
		}
	case reflect.Struct:
		for i := 0; i < v.NumField(); i++ {
			out.Field(i).Set(deepCopy(v.Field(i)))
		}
	default:
		out.Set(v)
	}
	return out
}

func showVal(v reflect.Value) string {
	s := fmt.Sprintf("%+v", derefShow(v))
	if len(s) > 600 {
		s = s[:600] + "…"
	}
	return s
}

func derefShow(v reflect.Value) any {
	switch v.Kind() {
	case reflect.Struct:
		m := map[string]any{}
		for i := 0; i < v.NumField(); i++ {
			m[v.Type().Field(i).Name] = derefShow(v.Field(i))
		}
		return m
	case reflect.Pointer:
		if v.IsNil() {
			return nil
		}
		return map[string]any{"&": derefShow(v.Elem())}
	case reflect.Slice, reflect.Array:
		out := []any{}
		for i := 0; i < v.Len() && i < 12; i++ {
			out = append(out, derefShow(v.Index(i)))
		}
		if v.Len() > 12 {
			out = append(out, fmt.Sprintf("…(%d)", v.Len()))
		}
		return out
	default:
		return v.Interface()
	}
}
