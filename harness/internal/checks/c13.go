package checks

import (
	"fmt"
	"sort"
	"strconv"
	"strings"
	"sync"
	"time"

	"github.com/nats-io/nats.go"
	"github.com/simpleiot/simpleiot/client"
	"github.com/simpleiot/simpleiot/data"

	"verifharness/internal/vlib"
)

func init() { Registry["C13"] = runC13 }

// ---- observation

type rEvent struct {
	Seq    int
	Kind   string // process, send, done
	Node   string
	Points data.Points
	Point  data.Point
	Config *client.Rule
}

type ruleMon struct {
	mu     sync.Mutex
	events []rEvent
}

func (m *ruleMon) add(e rEvent) {
	m.mu.Lock()
	e.Seq = len(m.events)
	m.events = append(m.events, e)
	m.mu.Unlock()
}

func (m *ruleMon) from(i int) []rEvent {
	m.mu.Lock()
	defer m.mu.Unlock()
	if i >= len(m.events) {
		return nil
	}
	return append([]rEvent{}, m.events[i:]...)
}

func copyRule(r client.Rule) *client.Rule {
	c := r
	c.Conditions = append([]client.Condition{}, r.Conditions...)
	c.Actions = append([]client.Action{}, r.Actions...)
	c.ActionsInactive = append([]client.Action{}, r.ActionsInactive...)
	return &c
}

// ---- reference model of docs/user/rules.md

type condSpec struct {
	ID        string
	Kind      string // pointValue / schedule
	NodeID    string
	PointType string
	PointKey  string
	ValueType string
	Operator  string
	Value     float64
	ValueText string
	Sched     schedCfg
	WeekdayBs []bool
}

type actSpec struct {
	ID, Target, PointType, ValueType string
	Value                            float64
	Text                             string
}

type ruleModel struct {
	ID         string
	Conds      []condSpec
	Acts, Inas []actSpec
	CondActive []bool
	Active     bool
	// last value written per (target,type) by set-value actions
	Targets map[string]data.Point
	ActFlag map[string]float64
}

type sendKey struct {
	Target, Type, Text, Origin string
	Value                      float64
}

func (m *ruleModel) evalCond(c condSpec, nodeID string, p data.Point) (matches, active bool) {
	switch c.Kind {
	case data.PointValuePointValue:
		if c.NodeID != "" && c.NodeID != nodeID {
			return false, false
		}
		if c.PointKey != "" && c.PointKey != p.Key {
			return false, false
		}
		if c.PointType != "" && c.PointType != p.Type {
			return false, false
		}
		switch c.ValueType {
		case data.PointValueNumber:
			switch c.Operator {
			case ">":
				return true, p.Value > c.Value
			case "<":
				return true, p.Value < c.Value
			case "=":
				return true, p.Value == c.Value
			case "!=":
				return true, p.Value != c.Value
			}
		case data.PointValueText:
			switch c.Operator {
			case "=":
				return true, p.Text == c.ValueText
			case "!=":
				return true, p.Text != c.ValueText
			case "contains":
				return true, strings.Contains(p.Text, c.ValueText)
			}
		case data.PointValueOnOff:
			return true, (c.Value != 0) == (p.Value != 0)
		}
		return true, false
	case data.PointValueSchedule:
		if p.Type != data.PointTypeTrigger {
			return false, false
		}
		return true, refActive(c.Sched, p.Time)
	}
	return false, false
}

// applyCfg folds configuration points that reached the running rule into the condition's parameters
// (only the identities the harness edits: start, end, weekday[k], date[k], value, valueText, operator).
func (cs *condSpec) applyCfg(pts data.Points) {
	hm := func(s string) int {
		var h, m int
		fmt.Sscanf(s, "%d:%d", &h, &m)
		return h*60 + m
	}
	for _, p := range pts {
		idx, _ := strconv.Atoi(p.Key)
		switch p.Type {
		case data.PointTypeStart:
			cs.Sched.Start, cs.Sched.sMin = p.Text, hm(p.Text)
		case data.PointTypeEnd:
			cs.Sched.End, cs.Sched.eMin = p.Text, hm(p.Text)
		case data.PointTypeWeekday:
			if len(cs.WeekdayBs) < 7 {
				cs.WeekdayBs = append(cs.WeekdayBs, make([]bool, 7-len(cs.WeekdayBs))...)
			}
			if idx >= 0 && idx < 7 {
				cs.WeekdayBs[idx] = p.Value != 0
			}
			cs.Sched.Weekdays = nil
			for w, on := range cs.WeekdayBs {
				if on {
					cs.Sched.Weekdays = append(cs.Sched.Weekdays, time.Weekday(w))
				}
			}
		case data.PointTypeDate:
			switch {
			case p.Tombstone%2 == 1 && idx == len(cs.Sched.Dates)-1:
				cs.Sched.Dates = cs.Sched.Dates[:idx]
			case p.Tombstone%2 == 1:
			case idx == len(cs.Sched.Dates):
				cs.Sched.Dates = append(cs.Sched.Dates, p.Text)
			case idx >= 0 && idx < len(cs.Sched.Dates):
				cs.Sched.Dates[idx] = p.Text
			}
		case data.PointTypeNodeID:
			cs.NodeID = p.Text
		case "value":
			cs.Value = p.Value
		case "valueText":
			cs.ValueText = p.Text
		case data.PointTypeOperator:
			cs.Operator = p.Text
		}
	}
}

func (m *ruleModel) listRun(active bool) []sendKey {
	run, other := m.Acts, m.Inas
	if !active {
		run, other = m.Inas, m.Acts
	}
	var out []sendKey
	for _, a := range run {
		out = append(out, sendKey{a.Target, a.PointType, a.Text, m.ID, a.Value})
		out = append(out, sendKey{a.ID, data.PointTypeActive, "", m.ID, 1})
	}
	for _, a := range other {
		out = append(out, sendKey{a.ID, data.PointTypeActive, "", m.ID, 0})
	}
	return out
}

func (m *ruleModel) applyListRun(active bool) {
	run, other := m.Acts, m.Inas
	if !active {
		run, other = m.Inas, m.Acts
	}
	for _, a := range run {
		m.Targets[a.Target+"/"+a.PointType] = data.Point{Type: a.PointType, Value: a.Value, Text: a.Text, Origin: m.ID}
		m.ActFlag[a.ID] = 1
	}
	for _, a := range other {
		m.ActFlag[a.ID] = 0
	}
}

// step processes one batch; returns the sends that are required and whether the rule state changed.
func (m *ruleModel) step(nodeID string, pts data.Points) (required []sendKey, changed bool) {
	for _, p := range pts {
		for i, c := range m.Conds {
			ok, act := m.evalCond(c, nodeID, p)
			if !ok {
				continue
			}
			if act != m.CondActive[i] {
				m.CondActive[i] = act
				v := 0.0
				if act {
					v = 1
				}
				required = append(required, sendKey{c.ID, data.PointTypeActive, "", m.ID, v})
			}
		}
	}
	all := true
	for _, a := range m.CondActive {
		all = all && a
	}
	if all != m.Active {
		m.Active = all
		changed = true
		v := 0.0
		if all {
			v = 1
		}
		required = append(required, sendKey{m.ID, data.PointTypeActive, "", "", v})
		required = append(required, m.listRun(all)...)
		m.applyListRun(all)
	}
	return required, changed
}

func multisetDiff(a, b []sendKey) (onlyA, onlyB []sendKey) {
	cnt := map[sendKey]int{}
	for _, x := range a {
		cnt[x]++
	}
	for _, x := range b {
		cnt[x]--
	}
	for k, n := range cnt {
		for ; n > 0; n-- {
			onlyA = append(onlyA, k)
		}
		for ; n < 0; n++ {
			onlyB = append(onlyB, k)
		}
	}
	return
}

func runC13(tier string, _ []string) int {
	c := vlib.NewCtx("C13", tier, "exploration")
	vlib.SetPortBlock(13)
	// the process runs in a time zone whose calendar date differs from the UTC date right now (UTC+13 in
	// the second half of the UTC day, UTC-11 in the first): schedule windows are defined on UTC days,
	// whatever zone the trigger time (time.Now() inside the rule client) is expressed in
	if time.Now().UTC().Hour() >= 11 {
		time.Local = time.FixedZone("verif+13", 13*3600)
	} else {
		time.Local = time.FixedZone("verif-11", -11*3600)
	}
	c.Extra("process_time_zone", time.Local.String())
	c.SetRule("per case a fresh instance with a real Rule client (client.NewManager + NewRuleClient) and a PRNG rule: 1-4 conditions mixing point conditions (number > < = !=, on/off, text = != contains; node / type / key filters) and schedule conditions (windows placed around the real UTC now: active, inactive, wrap-around; weekday and date filters), 0-3 set-value actions and 0-2 inactive actions with targets inside and outside the watched subtree; then 30-150 acknowledged batches from matching and non-matching nodes, types and keys with values at and around every threshold (+-eps, +-0, +-Inf) (a third of the points carry timestamps hours behind or ahead of the previous ones) and triggers forced through foreign points to the rule node; the process runs in a time zone whose date differs from the UTC date; about one step in ten edits a condition of the running rule (date list grows / shrinks, weekday switched, threshold or text changed), the model follows the rule.configPoints events. Monitor: the verif hook sites rule.process / rule.send / rule.batchDone give the batches in the order the rule really processed them; a tap on the subjects the rule subscribes to shows which batches were delivered (each must be processed, in that order); a reference model of docs/user/rules.md is stepped over the processed sequence and after every batch compares condition states, rule state and the points the rule emitted; at settled points (marker batches through both input paths) the store content (active flags, action flags, target points with the rule as origin) must equal the model. Two more rules have their set of conditions changed while running (a second condition that does not hold is added to an active rule; the one condition that does not hold is deleted from an inactive rule): with the following batches the stored rule state and the actions' target must follow. One more rule starts without a schedule condition; its condition is turned into one whose window opens at the next full minute, and it must become active (and run its action) once the clock passes that boundary. distinct = (condition kinds/operators present, number of conditions, state transitions seen)")
	c.Assume("action executions not associated with a change of rule state are tolerated for trigger batches (configuration changes re-run the current list today); NaN inputs are not generated; condition point types are disjoint from action point types so that the rule's own output never re-enters its conditions")
	nRules := c.N(40, 800)
	wd := c.NewWatchdog()
	// ---- a rule that starts without a schedule condition; its condition is then turned into a schedule
	// condition by points (the way the UI edits it), with a window that opens at the next full minute:
	// when the clock passes that boundary the condition and the rule become active without any other event
	patientRule := make(chan string, 1)
	go func() {
		in, err := vlib.StartInstance(vlib.InstCfg{ID: "c13-patient"})
		if err != nil {
			c.Inconclusive("patient rule: " + err.Error())
			patientRule <- ""
			return
		}
		defer in.Stop()
		nc, err1 := in.Connect()
		mnc, err2 := in.Connect()
		if err1 != nil || err2 != nil {
			patientRule <- ""
			return
		}
		send := func(subj string, pts data.Points) bool {
			e, err := vlib.SendAck(nc, subj, pts)
			return err == nil && e == ""
		}
		t0 := time.Now()
		pt := func(t, text string, v float64) data.Point {
			return data.Point{Type: t, Time: time.Now(), Text: text, Value: v, Origin: "harness"}
		}
		ruleID, condID, actID, target := "pr-rule", "pr-cond", "pr-act", "pr-target"
		okAll := send(vlib.EdgeSubj(target, in.RootID), data.Points{{Type: data.PointTypeTombstone, Time: t0}, {Type: data.PointTypeNodeType, Text: "variable"}}) &&
			send(vlib.NodeSubj(ruleID), data.Points{pt("description", "patient rule", 0)}) &&
			send(vlib.EdgeSubj(ruleID, in.RootID), data.Points{{Type: data.PointTypeTombstone, Time: t0}, {Type: data.PointTypeNodeType, Text: data.NodeTypeRule}}) &&
			send(vlib.NodeSubj(condID), data.Points{pt(data.PointTypeConditionType, data.PointValuePointValue, 0), pt("pointType", "value", 0), pt(data.PointTypeValueType, data.PointValueNumber, 0), pt(data.PointTypeOperator, ">", 0), pt("value", "", 1e9)}) &&
			send(vlib.EdgeSubj(condID, ruleID), data.Points{{Type: data.PointTypeTombstone, Time: t0}, {Type: data.PointTypeNodeType, Text: data.NodeTypeCondition}}) &&
			send(vlib.NodeSubj(actID), data.Points{pt(data.PointTypeAction, data.PointValueSetValue, 0), pt(data.PointTypeNodeID, target, 0), pt("pointType", "pset", 0), pt(data.PointTypeValueType, data.PointValueNumber, 0), pt("value", "", 42)}) &&
			send(vlib.EdgeSubj(actID, ruleID), data.Points{{Type: data.PointTypeTombstone, Time: t0}, {Type: data.PointTypeNodeType, Text: data.NodeTypeAction}})
		if !okAll {
			patientRule <- ""
			return
		}
		mgr := client.NewManager(mnc, client.NewRuleClient, nil)
		mdone := make(chan error, 1)
		go func() { mdone <- mgr.Run() }()
		defer func() {
			mgr.Stop(nil)
			select {
			case <-mdone:
			case <-time.After(30 * time.Second):
			}
		}()
		time.Sleep(3 * time.Second) // the rule client is running (no schedule condition so far)
		// the window opens at the next full minute that is at least 12 s away, and stays open for two hours
		now := time.Now().UTC()
		open := now.Truncate(time.Minute).Add(time.Minute)
		if open.Sub(now) < 12*time.Second {
			open = open.Add(time.Minute)
		}
		cfg := schedCfg{Start: open.Format("15:04"), End: open.Add(2 * time.Hour).Format("15:04")}
		cfg.sMin, cfg.eMin = open.Hour()*60+open.Minute(), (open.Hour()*60+open.Minute()+120)%1440
		if !send(vlib.NodeSubj(condID), data.Points{pt(data.PointTypeConditionType, data.PointValueSchedule, 0), pt(data.PointTypeStart, cfg.Start, 0), pt(data.PointTypeEnd, cfg.End, 0)}) {
			patientRule <- ""
			return
		}
		read := func(parent, id, typ string) (float64, bool) {
			ns, err := client.GetNodes(nc, parent, id, "", false)
			if err != nil || len(ns) != 1 {
				return 0, false
			}
			p, ok := ns[0].Points.Find(typ, "")
			return p.Value, ok
		}
		// before the boundary: inactive
		time.Sleep(2 * time.Second)
		if v, ok := read(ruleID, condID, data.PointTypeActive); ok && v != 0 && !refActive(cfg, time.Now()) {
			patientRule <- fmt.Sprintf("schedule condition active %.0f s before its window opens", time.Until(open).Seconds())
			return
		}
		// after the boundary (the rule looks at its schedule conditions every 10 s): active, action run
		for time.Now().Before(open.Add(45 * time.Second)) {
			time.Sleep(time.Second)
			if time.Now().Before(open.Add(12 * time.Second)) {
				continue
			}
			cv, _ := read(ruleID, condID, data.PointTypeActive)
			rv, _ := read(in.RootID, ruleID, data.PointTypeActive)
			tv, tok := read(in.RootID, target, "pset")
			if cv == 1 && rv == 1 && tok && tv == 42 {
				c.Count("window_boundary_seen_by_a_converted_condition", 1)
				patientRule <- ""
				return
			}
		}
		cv, _ := read(ruleID, condID, data.PointTypeActive)
		rv, _ := read(in.RootID, ruleID, data.PointTypeActive)
		tv, tok := read(in.RootID, target, "pset")
		patientRule <- fmt.Sprintf("45 s after the window %s-%s (UTC) opened, a condition that had been turned into a schedule condition on a running rule is active=%v, the rule active=%v, the action's target holds %v (present=%v)", cfg.Start, cfg.End, cv, rv, tv, tok)
	}()
	vlib.Parallel(nRules, 6, func(i int) {
		r := vlib.NewR(c.Seed, "c13", i)
		in, err := vlib.StartInstance(vlib.InstCfg{ID: fmt.Sprintf("c13-%d", i)})
		if err != nil {
			c.Inconclusive(err.Error())
			return
		}
		defer in.Stop()
		nc, err := in.Connect()
		if err != nil {
			c.Inconclusive(err.Error())
			return
		}
		mnc, err := in.Connect()
		if err != nil {
			c.Inconclusive(err.Error())
			return
		}
		d := newGdriver(r, nc, in.RootID, fmt.Sprintf("q%d", i))
		mustSend := func(e string, err error) {
			if err != nil || e != "" {
				panic(fmt.Sprint("setup write refused: ", err, " ", e))
			}
		}
		mkNode := func(id, parent, typ string, pts data.Points) string {
			if len(pts) > 0 {
				mustSend(d.sendNode(id, pts))
			}
			mustSend(d.sendEdge(id, parent, data.Points{{Type: data.PointTypeTombstone, Time: d.now()}, {Type: data.PointTypeNodeType, Text: typ}}))
			return id
		}
		tag := fmt.Sprintf("q%d", i)
		now := time.Now().UTC()
		var model *ruleModel
		var sources, outside []string
		var P, ruleID string
		var setupErr any
		feat := map[string]bool{}
		func() {
			defer func() { setupErr = recover() }()
			P = mkNode(tag+"-P", in.RootID, "group", nil)
			sub := mkNode(tag+"-sub", P, "group", nil)
			sources = []string{mkNode(tag+"-s1", P, "variable", nil), mkNode(tag+"-s2", P, "variable", nil), mkNode(tag+"-s3", sub, "variable", nil)}
			outside = []string{mkNode(tag+"-o1", in.RootID, "variable", nil)}
			targets := []string{mkNode(tag+"-t1", P, "variable", nil), mkNode(tag+"-t2", in.RootID, "variable", nil)}
			ruleID = tag + "-rule"
			model = &ruleModel{ID: ruleID, Targets: map[string]data.Point{}, ActFlag: map[string]float64{}}
			pt := func(t, text string, v float64) data.Point {
				return data.Point{Type: t, Time: d.now(), Text: text, Value: v, Origin: "setup"}
			}
			mkNode(ruleID, P, data.NodeTypeRule, data.Points{pt("description", "rule "+tag, 0)})
			nCond := 1 + r.Intn(4)
			if r.Chance(0.03) || i%13 == 5 {
				nCond = 0 // (every thirteenth rule, whatever the draw)
			}
			for k := 0; k < nCond; k++ {
				cs := condSpec{ID: fmt.Sprintf("%s-c%d", tag, k)}
				var pts data.Points
				if r.Chance(0.2) {
					cs.Kind = data.PointValueSchedule
					var s, e time.Time
					switch r.Intn(4) {
					case 0: // active now
						s, e = now.Add(-time.Hour), now.Add(time.Hour)
					case 1: // inactive
						s, e = now.Add(2*time.Hour), now.Add(3*time.Hour)
					case 2: // wrap-around, active now (starts 23 h ago as seen from tomorrow)
						s, e = now.Add(-2*time.Hour), now.Add(-3*time.Hour)
					default: // wrap-around window that excludes now
						s, e = now.Add(2*time.Hour), now.Add(-2*time.Hour)
					}
					cs.Sched = schedCfg{Start: s.Format("15:04"), End: e.Format("15:04"), sMin: s.Hour()*60 + s.Minute(), eMin: e.Hour()*60 + e.Minute()}
					pts = data.Points{pt(data.PointTypeConditionType, cs.Kind, 0), pt(data.PointTypeStart, cs.Sched.Start, 0), pt(data.PointTypeEnd, cs.Sched.End, 0)}
					if r.Chance(0.4) {
						cs.WeekdayBs = make([]bool, 7)
						for w := 0; w < 7; w++ {
							if r.Chance(0.6) {
								cs.WeekdayBs[w] = true
								cs.Sched.Weekdays = append(cs.Sched.Weekdays, time.Weekday(w))
							}
							v := 0.0
							if cs.WeekdayBs[w] {
								v = 1
							}
							wp := pt(data.PointTypeWeekday, "", v)
							wp.Key = fmt.Sprint(w)
							pts = append(pts, wp)
						}
					}
					if r.Chance(0.5) {
						// a date filter around the real UTC date (the window's start day decides)
						for q, off := range []int{-1, 0, 1, 40} {
							if r.Chance(0.5) {
								ds := now.AddDate(0, 0, off).Format("2006-01-02")
								dp := pt(data.PointTypeDate, ds, 0)
								dp.Key = fmt.Sprint(len(cs.Sched.Dates))
								pts = append(pts, dp)
								cs.Sched.Dates = append(cs.Sched.Dates, ds)
								_ = q
							}
						}
						feat["schedule-dates"] = true
					}
					feat["schedule"] = true
				} else {
					cs.Kind = data.PointValuePointValue
					if r.Chance(0.5) {
						cs.NodeID = sources[r.Intn(len(sources))]
					}
					cs.PointType = []string{"value", "temp", "state", "name"}[r.Intn(4)]
					if r.Chance(0.3) {
						cs.PointKey = []string{"a", "1"}[r.Intn(2)]
					}
					cs.ValueType = []string{data.PointValueNumber, data.PointValueNumber, data.PointValueOnOff, data.PointValueText}[r.Intn(4)]
					switch cs.ValueType {
					case data.PointValueNumber:
						cs.Operator = []string{">", "<", "=", "!="}[r.Intn(4)]
						cs.Value = []float64{0, 5, -2.5, 100, 1e9}[r.Intn(5)]
					case data.PointValueOnOff:
						cs.Operator = []string{data.PointValueOn, data.PointValueOff}[r.Intn(2)]
						cs.Value = float64(r.Intn(2))
					case data.PointValueText:
						cs.Operator = []string{"=", "!=", "contains"}[r.Intn(3)]
						cs.ValueText = []string{"on", "alarm", "A b", ""}[r.Intn(4)]
					}
					feat[cs.ValueType+cs.Operator] = true
					pts = data.Points{pt(data.PointTypeConditionType, cs.Kind, 0), pt(data.PointTypeNodeID, cs.NodeID, 0), pt("pointType", cs.PointType, 0), pt("pointKey", cs.PointKey, 0),
						pt(data.PointTypeValueType, cs.ValueType, 0), pt(data.PointTypeOperator, cs.Operator, 0), pt("value", "", cs.Value), pt("valueText", cs.ValueText, 0)}
				}
				mkNode(cs.ID, ruleID, data.NodeTypeCondition, pts)
				model.Conds = append(model.Conds, cs)
				model.CondActive = append(model.CondActive, false)
			}
			mkAct := func(k int, typ string) actSpec {
				a := actSpec{ID: fmt.Sprintf("%s-%s%d", tag, typ[:4], k) + map[string]string{"action": "", "actionInactive": "i"}[typ], Target: targets[r.Intn(len(targets))], PointType: []string{"set1", "set2"}[r.Intn(2)]}
				a.ValueType = []string{data.PointValueNumber, data.PointValueText, data.PointValueOnOff}[r.Intn(3)]
				switch a.ValueType {
				case data.PointValueNumber:
					a.Value = float64(r.Intn(200)) / 4
				case data.PointValueText:
					a.Text = "txt" + r.Ident(3)
				default:
					a.Value = float64(r.Intn(2))
				}
				mkNode(a.ID, ruleID, typ, data.Points{pt(data.PointTypeAction, data.PointValueSetValue, 0), pt(data.PointTypeNodeID, a.Target, 0), pt("pointType", a.PointType, 0),
					pt(data.PointTypeValueType, a.ValueType, 0), pt("value", "", a.Value), pt("valueText", a.Text, 0)})
				return a
			}
			for k := 0; k < r.Intn(4); k++ {
				model.Acts = append(model.Acts, mkAct(k, data.NodeTypeAction))
			}
			for k := 0; k < r.Intn(3); k++ {
				model.Inas = append(model.Inas, mkAct(k, data.NodeTypeActionInactive))
			}
		}()
		if setupErr != nil {
			c.Violate("store:legal-write-refused", fmt.Sprint(setupErr), map[string]any{"case": i, "ops": d.Log})
			return
		}
		// ---- observe the rule
		mon := &ruleMon{}
		unhook := addClientHook(func(site string, args ...any) {
			if len(args) < 1 || args[0] != ruleID {
				return
			}
			switch site {
			case "rule.process":
				mon.add(rEvent{Kind: "process", Node: args[1].(string), Points: append(data.Points{}, args[2].(data.Points)...)})
			case "rule.send":
				mon.add(rEvent{Kind: "send", Node: args[1].(string), Point: args[2].(data.Point)})
			case "rule.configPoints":
				mon.add(rEvent{Kind: "config", Node: args[1].(string), Points: append(data.Points{}, args[2].(data.Points)...)})
			case "rule.batchDone":
				mon.add(rEvent{Kind: "done", Config: copyRule(args[1].(client.Rule))})
			}
		})
		defer unhook()
		mgr := client.NewManager(mnc, client.NewRuleClient, nil)
		mdone := make(chan error, 1)
		go func() { mdone <- mgr.Run() }()
		defer func() {
			mgr.Stop(nil)
			select {
			case <-mdone:
			case <-time.After(30 * time.Second):
			}
		}()

		// what the rule's own subscription is sent: node-point rebroadcasts one level below its parent, in the
		// order the store published them (the same order for every subscriber of the store's connection)
		upTap, err := vlib.NewTap(nc, "up."+P+".*")
		if err != nil {
			c.Inconclusive(err.Error())
			return
		}
		defer upTap.Close()
		var tapped []vlib.TapMsg
		tapChecked, tapOffset := 0, -1
		witness := func(extra map[string]any) map[string]any {
			var evs []string
			for _, e := range mon.from(0) {
				switch e.Kind {
				case "process":
					evs = append(evs, fmt.Sprintf("%d process node=%s %v", e.Seq, e.Node, witnessPoints(e.Points)))
				case "config":
					evs = append(evs, fmt.Sprintf("%d config node=%s %v", e.Seq, e.Node, witnessPoints(e.Points)))
				case "send":
					evs = append(evs, fmt.Sprintf("%d send to=%s type=%s value=%v text=%q origin=%q", e.Seq, e.Node, e.Point.Type, e.Point.Value, e.Point.Text, e.Point.Origin))
				default:
					var ca []bool
					for _, cc := range e.Config.Conditions {
						ca = append(ca, cc.Active)
					}
					evs = append(evs, fmt.Sprintf("%d done rule.active=%v cond.active=%v", e.Seq, e.Config.Active, ca))
				}
			}
			if len(evs) > 250 {
				evs = evs[len(evs)-250:]
			}
			m := map[string]any{"case": i, "seed": c.Seed, "rule": model, "events": evs}
			for k, v := range extra {
				m[k] = v
			}
			return m
		}

		// ---- replay of observed events through the model
		cursor := 0
		var pendingProcess []rEvent
		var pendingSends []sendKey
		transitions := 0
		ok := true
		consume := func() {
			for _, e := range mon.from(cursor) {
				cursor++
				switch e.Kind {
				case "process":
					pendingProcess = append(pendingProcess, e)
				case "config":
					// configuration points merged by the running rule (between two batches)
					for k := range model.Conds {
						if model.Conds[k].ID == e.Node {
							model.Conds[k].applyCfg(e.Points)
							c.Count("config_edits_seen_by_the_rule", 1)
						}
					}
				case "send":
					pendingSends = append(pendingSends, sendKey{e.Node, e.Point.Type, e.Point.Text, e.Point.Origin, e.Point.Value})
					if e.Point.Type == data.PointTypeError && e.Point.Text != "" {
						c.Violate("rule:error-point-for-valid-config", fmt.Sprintf("rule reported error %q for a well-formed configuration", e.Point.Text), witness(nil))
						ok = false
						return
					}
				case "done":
					var required []sendKey
					changed := false
					trigger := false
					for _, pe := range pendingProcess {
						for _, id := range outside {
							if pe.Node == id {
								c.Violate("rule:saw-points-outside-its-parent", "the rule processed a batch from node "+id+" which is not below its parent", witness(nil))
								ok = false
								return
							}
						}
						if len(pe.Points) == 1 && pe.Points[0].Type == data.PointTypeTrigger {
							trigger = true
						}
						req, ch := model.step(pe.Node, pe.Points)
						required = append(required, req...)
						changed = changed || ch
					}
					if changed {
						transitions++
					}
					// compare state
					for k := range model.Conds {
						if k >= len(e.Config.Conditions) {
							break
						}
						// conditions are decoded in child order; match by id
						for _, cc := range e.Config.Conditions {
							if cc.ID == model.Conds[k].ID && cc.Active != model.CondActive[k] {
								sig := "rule:condition-state-wrong:" + model.Conds[k].Kind
								if model.Conds[k].Kind == data.PointValuePointValue {
									sig += ":" + model.Conds[k].ValueType + model.Conds[k].Operator
								}
								c.Violate(sig, fmt.Sprintf("condition %s is active=%v after the batch, the rules documentation says %v", cc.ID, cc.Active, model.CondActive[k]), witness(map[string]any{"batch": len(pendingProcess)}))
								ok = false
								return
							}
						}
					}
					if e.Config.Active != model.Active {
						c.Violate("rule:rule-state-wrong", fmt.Sprintf("rule active=%v, all-conditions-hold says %v", e.Config.Active, model.Active), witness(nil))
						ok = false
						return
					}
					// compare emitted points
					missing, extra := multisetDiff(required, pendingSends)
					if trigger && !changed && len(extra) > 0 {
						// tolerated: one re-run of the list for the current state
						m2, e2 := multisetDiff(model.listRun(model.Active), extra)
						if len(m2) == 0 && len(e2) == 0 {
							extra = nil
							model.applyListRun(model.Active)
						}
					}
					if len(missing) > 0 || len(extra) > 0 {
						sig := "rule:emitted-points-wrong"
						switch {
						case changed && len(missing) > 0:
							sig = "rule:action-list-not-run-on-state-change"
						case !changed && len(extra) > 0:
							sig = "rule:actions-run-without-state-change"
						}
						c.Violate(sig, fmt.Sprintf("after a batch (state changed=%v): missing %v, unexpected %v", changed, missing, extra), witness(nil))
						ok = false
						return
					}
					c.Count("batches_checked", 1)
					pendingProcess, pendingSends = nil, nil
				}
			}
		}

		// every batch the bus delivered below the rule's parent must have been processed by the rule, in
		// that order (the model above only sees what the rule reports it processed)
		finalTap := false
		checkTap := func() {
			if !ok {
				return
			}
			tapped = append(tapped, upTap.Drain()...)
			var processed []rEvent
			for _, e := range mon.from(0) {
				if e.Kind == "process" && !(len(e.Points) == 1 && e.Points[0].Type == data.PointTypeTrigger) {
					processed = append(processed, e)
				}
			}
			if tapOffset < 0 {
				// align: the rule's subscription starts later than the tap; its first processed batch is
				// somewhere in what the tap has seen
				if len(processed) == 0 {
					return
				}
				for k, m := range tapped {
					parts := strings.Split(m.Subject, ".")
					pts, err := data.PbDecodePoints(m.Raw)
					if err == nil && len(parts) == 3 && parts[2] == processed[0].Node && pointsDiff(pts, processed[0].Points) == "" {
						tapOffset, tapChecked = k, k
						break
					}
				}
				if tapOffset < 0 {
					return
				}
			}
			for ; tapChecked < len(tapped); tapChecked++ {
				m := tapped[tapChecked]
				parts := strings.Split(m.Subject, ".")
				if len(parts) != 3 {
					continue
				}
				pts, err := data.PbDecodePoints(m.Raw)
				if err != nil {
					continue
				}
				if tapChecked-tapOffset >= len(processed) {
					if !finalTap {
						return // the rule may still be working on the tail; judged at the next settled point
					}
					tapChecked = len(tapped)
					c.Violate("rule:delivered-batch-never-processed", fmt.Sprintf("a batch for node %s (%d points, first type %q, origin %q) was rebroadcast below the rule's parent but the rule never processed it", parts[2], len(pts), pts[0].Type, pts[0].Origin), witness(map[string]any{"batch": witnessPoints(pts)}))
					ok = false
					return
				}
				pe := processed[tapChecked-tapOffset]
				if pe.Node != parts[2] || pointsDiff(pts, pe.Points) != "" {
					c.Violate("rule:delivered-batch-never-processed", fmt.Sprintf("the %d-th batch delivered below the rule's parent (node %s, first type %q, origin %q) is not the %d-th batch the rule processed (node %s)", tapChecked+1, parts[2], pts[0].Type, pts[0].Origin, tapChecked+1, pe.Node), witness(map[string]any{"batch": witnessPoints(pts)}))
					ok = false
					return
				}
				c.Count("delivered_batches_matched_with_processed", 1)
			}
		}
		// ---- settle: marker batches through both input paths until the rule emits nothing more
		markerN := 0
		started := false
		settle := func() bool {
			for round := 0; round < 10; round++ {
				markerN++
				startLen := len(mon.from(0))
				_ = mnc.Flush()
				marks := map[string]bool{}
				sendMark := func() {
					mark := fmt.Sprintf("mark-%d-%d", markerN, len(marks))
					marks[mark] = true
					mustSend(d.sendNode(P, data.Points{{Type: "vmark", Time: d.now(), Text: mark, Origin: "harness"}}))
				}
				sendMark()
				done := wd.Watch("rule:batch-never-processed", witness(nil), 60*time.Second, true)
				for polls := 1; ; polls++ {
					seen := false
					evs := mon.from(startLen)
					for k, e := range evs {
						if e.Kind == "process" && len(e.Points) == 1 && marks[e.Points[0].Text] {
							// and its done
							for _, e2 := range evs[k:] {
								if e2.Kind == "done" {
									seen = true
								}
							}
						}
					}
					if seen {
						break
					}
					if !started && polls%300 == 0 {
						// the rule client may not have subscribed yet when the first marker went out
						sendMark()
					}
					time.Sleep(time.Millisecond)
				}
				started = true
				done()
				sends := 0
				for _, e := range mon.from(startLen) {
					if e.Kind == "send" {
						sends++
					}
				}
				if sends == 0 && round > 0 {
					return true
				}
			}
			return false
		}

		defer func() {
			if e := recover(); e != nil {
				c.Violate("store:legal-write-refused", fmt.Sprint(e), witness(nil))
			}
		}()
		// wait for the rule client to exist: a first marker gets through once it runs
		if !settle() {
			c.Inconclusive(fmt.Sprintf("case %d: rule does not settle after start", i))
			return
		}
		consume()
		checkTap()
		if !ok {
			return
		}
		// ---- batches
		nB := 30 + r.Intn(c.N(60, 120))
		types := []string{"value", "temp", "state", "name", "other"}
		nearValues := func() float64 {
			base := []float64{0, 5, -2.5, 100, 1e9}[r.Intn(5)]
			switch r.Intn(8) {
			case 0:
				return base
			case 1:
				return base + 1e-9
			case 2:
				return base - 1e-9
			case 3:
				return base + 1
			case 4:
				return base - 1
			case 5:
				return []float64{0, 1}[r.Intn(2)]
			case 6:
				return r.Float()
			default:
				return float64(r.Intn(200)) - 50
			}
		}
		for k := 0; k < nB && ok; k++ {
			var node string
			switch r.Intn(10) {
			case 0:
				node = outside[0]
			case 1:
				node = P
			default:
				node = sources[r.Intn(len(sources))]
			}
			if len(model.Conds) > 0 && r.Chance(0.1) {
				// edit a condition of the running rule (at a settled point, so that the model's copy of the
				// parameters and the order of events are unambiguous)
				if !settle() {
					c.Violate("rule:does-not-settle", "the rule keeps emitting points although its conditions cannot see its own output", witness(nil))
					return
				}
				consume()
				checkTap()
				if !ok {
					return
				}
				cs := model.Conds[r.Intn(len(model.Conds))]
				var ep data.Points
				ept := func(t, key, text string, v float64) data.Point {
					return data.Point{Type: t, Key: key, Time: d.now(), Text: text, Value: v, Origin: "harness"}
				}
				if cs.Kind == data.PointValueSchedule {
					switch r.Intn(4) {
					case 0, 1: // the date list grows by one entry
						ds := now.AddDate(0, 0, []int{-1, 0, 0, 1, 40}[r.Intn(5)]).Format("2006-01-02")
						ep = data.Points{ept(data.PointTypeDate, fmt.Sprint(len(cs.Sched.Dates)), ds, 0)}
						feat["edit-date-added"] = true
					case 2: // the last date is deleted
						if n := len(cs.Sched.Dates); n > 0 {
							p := ept(data.PointTypeDate, fmt.Sprint(n-1), cs.Sched.Dates[n-1], 0)
							p.Tombstone = 1
							ep = data.Points{p}
							feat["edit-date-removed"] = true
						}
					default: // a weekday is switched
						w := r.Intn(7)
						v := 1.0
						if w < len(cs.WeekdayBs) && cs.WeekdayBs[w] {
							v = 0
						}
						ep = data.Points{ept(data.PointTypeWeekday, fmt.Sprint(w), "", v)}
						feat["edit-weekday"] = true
					}
				} else if r.Chance(0.35) {
					// the condition is pointed at another node (or at all nodes)
					ep = data.Points{ept(data.PointTypeNodeID, "", append([]string{""}, sources...)[r.Intn(len(sources)+1)], 0)}
					feat["edit-retarget"] = true
				} else {
					switch cs.ValueType {
					case data.PointValueNumber:
						ep = data.Points{ept("value", "", "", []float64{0, 5, -2.5, 100, 1e9}[r.Intn(5)])}
					case data.PointValueText:
						ep = data.Points{ept("valueText", "", []string{"on", "alarm", "A b", ""}[r.Intn(4)], 0)}
					default:
						ep = data.Points{ept("value", "", "", float64(r.Intn(2)))}
					}
					feat["edit-threshold"] = true
				}
				if len(ep) > 0 {
					mustSend(d.sendNode(cs.ID, ep))
					c.Eval(1)
					c.Count("condition_edits_sent", 1)
					if !settle() {
						c.Violate("rule:does-not-settle", "the rule keeps emitting points although its conditions cannot see its own output", witness(nil))
						return
					}
					consume()
					checkTap()
					if !ok {
						return
					}
				}
				continue
			}
			if r.Chance(0.08) {
				// force a trigger through a foreign point to the rule node
				mustSend(d.sendNode(ruleID, data.Points{{Type: "description", Time: d.now(), Text: "rule " + r.Ident(3), Origin: "harness"}}))
				c.Eval(1)
				continue
			}
			// half of the batches aim at one condition (or, in a sweep, at all of them) so that the rule changes state often
			var aimed []condSpec
			for _, cs := range model.Conds {
				if cs.Kind == data.PointValuePointValue {
					aimed = append(aimed, cs)
				}
			}
			if len(aimed) > 0 && r.Chance(0.55) {
				sweep := r.Chance(0.3)
				satisfy := r.Chance(0.65)
				if !sweep {
					aimed = aimed[r.Intn(len(aimed)):][:1]
				}
				for _, cs := range aimed {
					p := data.Point{Type: cs.PointType, Key: cs.PointKey, Time: d.now(), Origin: "harness"}
					if r.Chance(0.3) {
						p.Time = p.Time.Add(time.Duration(r.Intn(7)-3) * time.Hour)
					}
					switch cs.ValueType {
					case data.PointValueNumber:
						delta := map[string]float64{">": 1, "<": -1, "=": 0, "!=": 3}[cs.Operator]
						if !satisfy {
							delta = map[string]float64{">": 0, "<": 0, "=": 1e-9, "!=": 0}[cs.Operator]
						}
						p.Value = cs.Value + delta
					case data.PointValueOnOff:
						p.Value = cs.Value
						if !satisfy {
							p.Value = 1 - cs.Value
						}
					case data.PointValueText:
						switch cs.Operator {
						case "=":
							p.Text = cs.ValueText
							if !satisfy {
								p.Text += "x"
							}
						case "!=":
							p.Text = cs.ValueText + "y"
							if !satisfy {
								p.Text = cs.ValueText
							}
						default:
							p.Text = "pre " + cs.ValueText + " post"
							if !satisfy {
								p.Text = "zzz"
								if cs.ValueText == "" {
									p.Text = "" // contains "" is always true
								}
							}
						}
					}
					target := cs.NodeID
					if target == "" {
						target = sources[r.Intn(len(sources))]
					}
					e, err := d.sendNode(target, data.Points{p})
					c.Eval(1)
					if err != nil || e != "" {
						c.Violate("store:legal-write-refused", fmt.Sprint(err, e), witness(nil))
						return
					}
				}
				if r.Chance(0.3) {
					if !settle() {
						c.Violate("rule:does-not-settle", "the rule keeps emitting points although its conditions cannot see its own output", witness(nil))
						return
					}
					consume()
					checkTap()
				}
				continue
			}
			n := 1 + r.Intn(3)
			var pts data.Points
			for q := 0; q < n; q++ {
				p := data.Point{Type: types[r.Intn(len(types))], Key: []string{"", "", "a", "1", "zz"}[r.Intn(5)], Time: d.now(), Value: nearValues(), Text: []string{"on", "alarm", "A b", "", "alarm on", "ALARM", "off"}[r.Intn(7)], Origin: "harness"}
				if r.Chance(0.3) {
					// a source whose clock jumps: timestamps far behind or ahead of what was sent before (the
					// rule is told of every delivered point in arrival order, whatever its timestamp)
					p.Time = p.Time.Add(time.Duration(r.Intn(7)-3) * time.Hour)
				}
				pts = append(pts, p)
			}
			e, err := d.sendNode(node, pts)
			c.Eval(1)
			if err != nil || e != "" {
				c.Violate("store:legal-write-refused", fmt.Sprint(err, e), witness(nil))
				return
			}
			if r.Chance(0.25) || k == nB-1 {
				if !settle() {
					c.Violate("rule:does-not-settle", "the rule keeps emitting points although its conditions cannot see its own output", witness(nil))
					return
				}
				consume()
				checkTap()
			}
		}
		if !ok {
			return
		}
		if !settle() {
			c.Violate("rule:does-not-settle", "the rule keeps emitting points although its conditions cannot see its own output", witness(nil))
			return
		}
		consume()
		checkTap()
		if !ok {
			return
		}
		finalTap = true
		checkTap()
		if !ok {
			return
		}
		// ---- boundary check through the store
		_ = mnc.Flush()
		mustSend(d.sendNode(outside[0], data.Points{{Type: "noop", Time: d.now(), Origin: "harness"}}))
		readVal := func(parent, id, typ string) (data.Point, bool) {
			ns, err := client.GetNodes(nc, parent, id, "", false)
			if err != nil || len(ns) != 1 {
				return data.Point{}, false
			}
			return ns[0].Points.Find(typ, "")
		}
		if p, okk := readVal(P, ruleID, data.PointTypeActive); (okk && (p.Value != 0) != model.Active) || (!okk && model.Active) {
			c.Violate("rule:store-disagrees:rule-active", fmt.Sprintf("stored rule active=%v (present=%v), model %v", p.Value, okk, model.Active), witness(nil))
			return
		}
		for k, cs := range model.Conds {
			if p, okk := readVal(ruleID, cs.ID, data.PointTypeActive); (okk && (p.Value != 0) != model.CondActive[k]) || (!okk && model.CondActive[k]) {
				c.Violate("rule:store-disagrees:condition-active", fmt.Sprintf("stored condition %s active=%v (present=%v), model %v", cs.ID, p.Value, okk, model.CondActive[k]), witness(nil))
				return
			}
		}
		for key, want := range model.Targets {
			parts := strings.SplitN(key, "/", 2)
			parent := P
			if strings.HasSuffix(parts[0], "-t2") {
				parent = in.RootID
			}
			p, okk := readVal(parent, parts[0], parts[1])
			if !okk || p.Value != want.Value || p.Text != want.Text || p.Origin != model.ID {
				c.Violate("rule:store-disagrees:action-target", fmt.Sprintf("target %s: stored %v/%q origin %q (present=%v), the last executed set-value action wrote %v/%q with the rule as origin", key, p.Value, p.Text, p.Origin, okk, want.Value, want.Text), witness(nil))
				return
			}
		}
		for id, want := range model.ActFlag {
			if p, okk := readVal(ruleID, id, data.PointTypeActive); !okk || p.Value != want {
				c.Violate("rule:store-disagrees:action-flag", fmt.Sprintf("action %s active flag stored %v (present=%v), model %v", id, p.Value, okk, want), witness(nil))
				return
			}
		}
		c.Count("store_checks", 1)
		c.Count("state_transitions", int64(transitions))
		fk := keysOf(feat)
		sort.Strings(fk)
		c.Distinct(fmt.Sprintf("conds=%d acts=%d/%d %v transitions~%d", len(model.Conds), len(model.Acts), len(model.Inas), fk, min(transitions, 5)))
		if i < 2 {
			c.Sample(map[string]any{"rule": model, "batches": nB, "transitions": transitions})
		}
	})
	for variant := 0; variant < 2 && !vlib.Aborted(); variant++ {
		if res := c13ConditionSetChanges(c, variant); res != "" {
			c.Violate("rule:store-disagrees:after-the-set-of-conditions-changed", res, map[string]any{"seed": c.Seed, "variant": variant})
			break
		}
	}
	if res := <-patientRule; res != "" {
		c.Violate("rule:condition-state-wrong:schedule:window-boundary-passes", res, map[string]any{"seed": c.Seed})
	}
	c.Require("batches_checked", 500)
	c.Require("state_transitions", 20)
	c.Require("store_checks", 10)
	return c.Finish()
}

var _ = nats.ErrTimeout
