package checks

import (
	"fmt"
	"time"

	"github.com/nats-io/nats.go"
	"github.com/simpleiot/simpleiot/client"
	"github.com/simpleiot/simpleiot/data"

	"verifharness/internal/vlib"
)

// c13ConditionSetChanges: the set of conditions of a running rule changes (the manager restarts the rule client
// for that). What everybody else can see - the rule's active point in the store, the action's target - must follow
// "active exactly when all conditions hold" with the next batch:
//
//	(a) an active rule gets one more condition that does not hold  -> inactive, the inactive action runs
//	(b) an inactive rule loses the one condition that does not hold -> active, the action runs
//
// Returns "" or what went wrong.
func c13ConditionSetChanges(c *vlib.Ctx, variant int) string {
	in, err := vlib.StartInstance(vlib.InstCfg{ID: fmt.Sprintf("c13-cs-%d", variant)})
	if err != nil {
		c.Inconclusive("condition set: " + err.Error())
		return ""
	}
	defer in.Stop()
	nc, err := in.Connect()
	if err != nil {
		c.Inconclusive(err.Error())
		return ""
	}
	mnc, err := in.Connect()
	if err != nil {
		c.Inconclusive(err.Error())
		return ""
	}
	bad := ""
	send := func(subj string, pts data.Points) bool {
		e, err := vlib.SendAck(nc, subj, pts)
		if err != nil || e != "" {
			c.Inconclusive(fmt.Sprintf("condition set: write %s refused: %v %s", subj, err, e))
			return false
		}
		return true
	}
	pt := func(t, text string, v float64) data.Point {
		return data.Point{Type: t, Time: time.Now(), Text: text, Value: v, Origin: "harness"}
	}
	edge := func(id, parent, typ string) bool {
		return send(vlib.EdgeSubj(id, parent), data.Points{{Type: data.PointTypeTombstone, Time: time.Now()}, {Type: data.PointTypeNodeType, Text: typ}})
	}
	tag := fmt.Sprintf("cs%d", variant)
	P, src1, src2, target, rule := tag+"-P", tag+"-s1", tag+"-s2", tag+"-target", tag+"-rule"
	cond := func(id, source string) bool {
		return send(vlib.NodeSubj(id), data.Points{pt(data.PointTypeConditionType, data.PointValuePointValue, 0), pt(data.PointTypeNodeID, source, 0), pt("pointType", "value", 0),
			pt(data.PointTypeValueType, data.PointValueNumber, 0), pt(data.PointTypeOperator, ">", 0), pt("value", "", 5)}) && edge(id, rule, data.NodeTypeCondition)
	}
	act := func(id, typ string, v float64) bool {
		return send(vlib.NodeSubj(id), data.Points{pt(data.PointTypeAction, data.PointValueSetValue, 0), pt(data.PointTypeNodeID, target, 0), pt("pointType", "pset", 0),
			pt(data.PointTypeValueType, data.PointValueNumber, 0), pt("value", "", v)}) && edge(id, rule, typ)
	}
	if !(edge(P, in.RootID, "group") && edge(src1, P, "variable") && edge(src2, P, "variable") && edge(target, in.RootID, "variable") &&
		send(vlib.NodeSubj(rule), data.Points{pt("description", "rule "+tag, 0)}) && edge(rule, P, data.NodeTypeRule) &&
		cond(tag+"-c1", src1) && act(tag+"-a", data.NodeTypeAction, 42) && act(tag+"-ia", data.NodeTypeActionInactive, 7)) {
		return ""
	}
	if variant == 1 && !cond(tag+"-c2", src2) {
		return ""
	}
	mgr := client.NewManager(mnc, client.NewRuleClient, nil)
	mdone := make(chan error, 1)
	go func() { mdone <- mgr.Run() }()
	defer func() {
		mgr.Stop(nil)
		select {
		case <-mdone:
		case <-time.After(30 * time.Second):
		}
	}()
	state := func() (ruleActive float64, tv float64, ok bool) {
		rs, err := client.GetNodes(nc, P, rule, "", false)
		ts, err2 := client.GetNodes(nc, in.RootID, target, "", false)
		if err != nil || err2 != nil || len(rs) != 1 || len(ts) != 1 {
			return 0, 0, false
		}
		if p, found := rs[0].Points.Find(data.PointTypeActive, ""); found {
			ruleActive = p.Value
		}
		if p, found := ts[0].Points.Find("pset", ""); found {
			tv = p.Value
		}
		return ruleActive, tv, true
	}
	// drive: value batches on source 1 (its condition holds) until the expected state shows, at most `limit`
	drive := func(wantActive float64, wantTarget float64, limit time.Duration) (float64, float64, bool) {
		deadline := time.Now().Add(limit)
		var ra, tv float64
		for k := 0; time.Now().Before(deadline); k++ {
			if !send(vlib.NodeSubj(src1), data.Points{pt("value", "", float64(10+k%5))}) {
				return 0, 0, false
			}
			time.Sleep(300 * time.Millisecond)
			var ok bool
			if ra, tv, ok = state(); ok && ra == wantActive && tv == wantTarget {
				return ra, tv, true
			}
		}
		return ra, tv, false
	}
	c.Eval(1)
	if variant == 0 {
		// (a) active with one condition ...
		if ra, tv, ok := drive(1, 42, 20*time.Second); !ok {
			c.Inconclusive(fmt.Sprintf("condition set: the rule did not become active with its one condition holding (rule active=%v, target=%v)", ra, tv))
			return ""
		}
		// ... then a second condition that does not hold (its source never had a value)
		if !cond(tag+"-c2", src2) {
			return ""
		}
		if ra, tv, ok := drive(0, 7, 25*time.Second); !ok {
			bad = fmt.Sprintf("an active rule was given a second condition that does not hold; after 25 s of further batches the store says rule active=%v and the actions' target holds %v (inactive rule: 0, and the inactive action's 7)", ra, tv)
		}
	} else {
		// (b) inactive with two conditions, one of which does not hold ...
		time.Sleep(3 * time.Second)
		for k := 0; k < 6; k++ {
			if !send(vlib.NodeSubj(src1), data.Points{pt("value", "", float64(10+k))}) {
				return ""
			}
			time.Sleep(200 * time.Millisecond)
		}
		if ra, _, ok := state(); !ok || ra != 0 {
			c.Inconclusive(fmt.Sprintf("condition set: a rule with a condition that does not hold is active=%v", ra))
			return ""
		}
		// ... then that condition is deleted
		if !send(vlib.EdgeSubj(tag+"-c2", rule), data.Points{{Type: data.PointTypeTombstone, Time: time.Now(), Value: 1, Origin: "harness"}}) {
			return ""
		}
		if ra, tv, ok := drive(1, 42, 25*time.Second); !ok {
			bad = fmt.Sprintf("an inactive rule lost the one condition that did not hold; after 25 s of further batches the store says rule active=%v and the action's target holds %v (active rule: 1, and the action's 42)", ra, tv)
		}
	}
	if bad == "" {
		c.Count("condition_set_changes_followed", 1)
	}
	return bad
}

var _ = nats.ErrTimeout
