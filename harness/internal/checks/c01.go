package checks

import (
	"bytes"
	"encoding/json"
	"fmt"
	"math"
	"net/http"
	"os"
	"path/filepath"
	"sort"
	"strings"
	"time"

	"github.com/nats-io/nats.go"
	"github.com/simpleiot/simpleiot/client"
	"github.com/simpleiot/simpleiot/data"

	"verifharness/internal/vlib"
)

func init() { Registry["C01"] = runC01 }

type ident struct{ Type, Key string }

func identOf(p data.Point) ident {
	k := p.Key
	if k == "" {
		k = "0"
	}
	return ident{p.Type, k}
}

// newestModel is the reference: per identity the delivered point with the greatest timestamp.
type newestModel map[ident]data.Point

func (m newestModel) points() data.Points {
	var out data.Points
	for _, p := range m {
		out = append(out, p)
	}
	return out
}

func (m newestModel) deliver(p data.Point) {
	id := identOf(p)
	if cur, ok := m[id]; !ok || p.Time.UnixNano() > cur.Time.UnixNano() {
		m[id] = p
	}
}

// storedDiff compares what a read returned with the model.
func storedDiff(m newestModel, got data.Points, checkData bool) (sig, what string) {
	seen := map[ident]int{}
	for _, g := range got {
		id := identOf(g)
		seen[id]++
		if seen[id] > 1 {
			return "store:two-points-for-one-identity", fmt.Sprintf("identity (%q,%q) returned %d times", id.Type, id.Key, seen[id])
		}
		want, ok := m[id]
		if !ok {
			return "store:phantom-point", fmt.Sprintf("point (%q,%q) was never delivered", g.Type, g.Key)
		}
		if g.Key != id.Key {
			return "store:key-not-normalised", fmt.Sprintf("stored key %q for identity key %q", g.Key, id.Key)
		}
		if g.Time.UnixNano() != want.Time.UnixNano() {
			if g.Time.UnixNano() < want.Time.UnixNano() {
				return "store:older-point-wins", fmt.Sprintf("(%q,%q): read t=%d, newest delivered t=%d", id.Type, id.Key, g.Time.UnixNano(), want.Time.UnixNano())
			}
			return "store:wrong-time", fmt.Sprintf("(%q,%q): read t=%d, newest delivered t=%d", id.Type, id.Key, g.Time.UnixNano(), want.Time.UnixNano())
		}
		field := ""
		switch {
		case !(g.Value == want.Value):
			field = fmt.Sprintf("value %v(%x) != %v(%x)", g.Value, math.Float64bits(g.Value), want.Value, math.Float64bits(want.Value))
		case g.Text != want.Text:
			field = fmt.Sprintf("text %q != %q", g.Text, want.Text)
		case g.Tombstone != want.Tombstone:
			field = fmt.Sprintf("tombstone %d != %d", g.Tombstone, want.Tombstone)
		case g.Origin != want.Origin:
			field = fmt.Sprintf("origin %q != %q", g.Origin, want.Origin)
		case checkData && !bytes.Equal(g.Data, want.Data):
			field = fmt.Sprintf("data %x != %x", g.Data, want.Data)
		}
		if field != "" {
			return "store:field-of-newest-point-changed", fmt.Sprintf("(%q,%q): %s", id.Type, id.Key, field)
		}
	}
	for id := range m {
		if seen[id] == 0 {
			return "store:delivered-point-missing", fmt.Sprintf("identity (%q,%q) was delivered but is not returned", id.Type, id.Key)
		}
	}
	return "", ""
}

var c01Strings = []string{"", "0", "a", "b", "ab", "a0", "value", "description", "tombstone", "1", "00", "é", "日本", "'", "\"", "%", "_", "a b", " ", "\t", "x\ny", "NULL", "' OR 1=1 --", "k", "key"}

func c01Str(r *vlib.R) string {
	if r.Chance(0.7) {
		return c01Strings[r.Intn(len(c01Strings))]
	}
	return r.Str()
}

// genPointSet generates identities x versions with distinct timestamps per identity.
func genPointSet(r *vlib.R, edge bool) data.Points {
	nID := 1 + r.Intn(12)
	var ids []ident
	seen := map[ident]bool{}
	// colliding pairs on purpose
	if r.Chance(0.4) {
		ids = append(ids, ident{"ab", ""}, ident{"a", "b"})
	}
	if r.Chance(0.4) {
		t := c01Str(r)
		ids = append(ids, ident{t, ""}, ident{t, "0"}) // same identity twice: versions are shared below
	}
	if r.Chance(0.5) {
		// type/key pairs that coincide once joined with some separator (whatever an index or cache might use)
		sep := []string{":", "|", "/", ".", "-", "_", " ", ",", ";", "\t", "\x1f", "=", "#", "+"}[r.Intn(14)]
		a, b, cc := r.Ident(1+r.Intn(2)), r.Ident(1+r.Intn(2)), r.Ident(1+r.Intn(2))
		ids = append(ids, ident{a + sep + b, cc}, ident{a, b + sep + cc})
		if r.Chance(0.5) {
			ids = append(ids, ident{a + sep + b, ""}, ident{a, b + sep + "0"})
		}
	}
	for len(ids) < nID {
		ids = append(ids, ident{c01Str(r), c01Str(r)})
	}
	var pts data.Points
	used := map[ident]map[int64]bool{}
	for _, id := range ids {
		if edge && id.Type == data.PointTypeNodeType {
			continue
		}
		canon := identOf(data.Point{Type: id.Type, Key: id.Key})
		if used[canon] == nil {
			used[canon] = map[int64]bool{}
		}
		_ = seen
		nv := 1 + r.Intn(6)
		for v := 0; v < nv; v++ {
			var ns int64
			for {
				ns = r.TimeNs()
				if r.Chance(0.3) { // close together
					ns = 1700000000e9 + int64(r.Intn(20))
				}
				if !used[canon][ns] && !time.Unix(0, ns).IsZero() {
					break
				}
			}
			used[canon][ns] = true
			p := data.Point{Type: id.Type, Key: id.Key, Time: time.Unix(0, ns), Value: r.Float(), Text: c01Str(r), Origin: c01Str(r)}
			if r.Chance(0.3) {
				p.Tombstone = []int{1, 2, 3, 7, math.MaxInt32}[r.Intn(5)]
			}
			if r.Chance(0.2) {
				p.Data = make([]byte, 1+r.Intn(8))
				r.Read(p.Data)
			}
			pts = append(pts, p)
		}
	}
	return pts
}

// genDelivery turns the set into batches: a permutation, a partition and re-deliveries.
func genDelivery(r *vlib.R, set data.Points) []data.Points {
	seq := append(data.Points{}, set...)
	// re-deliveries
	n := len(seq)
	for i := 0; i < n; i++ {
		if r.Chance(0.2) {
			seq = append(seq, set[r.Intn(n)])
		}
	}
	switch r.Intn(4) {
	case 0: // oldest first
		sort.SliceStable(seq, func(a, b int) bool { return seq[a].Time.Before(seq[b].Time) })
	case 1: // newest first
		sort.SliceStable(seq, func(a, b int) bool { return seq[a].Time.After(seq[b].Time) })
	default:
		r.Shuffle(len(seq), func(a, b int) { seq[a], seq[b] = seq[b], seq[a] })
	}
	var batches []data.Points
	switch r.Intn(4) {
	case 0: // one big batch
		batches = []data.Points{seq}
	case 1: // singletons
		for _, p := range seq {
			batches = append(batches, data.Points{p})
		}
	default:
		for len(seq) > 0 {
			k := 1 + r.Intn(len(seq))
			if k > 6 && r.Chance(0.7) {
				k = 1 + r.Intn(6)
			}
			batches = append(batches, seq[:k])
			seq = seq[k:]
		}
	}
	return batches
}

const c01Token = "c01-instance-token"

// jsonable: the HTTP API speaks JSON, which has no spelling for infinities
func jsonable(ps data.Points) bool {
	for _, p := range ps {
		if math.IsInf(p.Value, 0) || math.IsNaN(p.Value) || (p.Value == 0 && math.Signbit(p.Value)) {
			return false // and the API's JSON omits zero values, so that -0 arrives as +0
		}
		if p.Type == data.PointTypeTombstone {
			return false // the API does not list deleted placements
		}
	}
	return true
}

func runC01(tier string, _ []string) int {
	c := vlib.NewCtx("C01", tier, "exploration")
	vlib.SetPortBlock(1)
	c.SetRule("per case a PRNG point set (1-12 identities x 1-6 versions; strings from a hostile pool incl. colliding concatenations (ab,'')/(a,b), keys '' and '0' of one type, quotes, Unicode; values +-0, +-Inf, subnormals, >2^53; tombstones; origins; data; timestamps distinct per identity over the whole int64-ns range and clustered) is delivered k times to k fresh nodes (node points) and k fresh edges (edge points), each under its own permutation x partition into acknowledged batches x re-deliveries; after every batch the node is read back (deleted included) and compared with the newest-wins reference model; a third of the nodes get a second placement (mirror or move below a group) before one of the batches and are then also read through the other parent, through parent \"all\" and through the group's child list. One node in four receives its batches through the library's SendNodePoints / SendEdgePoints, one in eight (finite values only) through the HTTP API's POST /v1/nodes/<id>/points, which must store the same points with its own origin; nodes whose points JSON can carry are also read through GET /v1/nodes/<id>. Finally three runs of an instance on one data file: each run adds nodes and new identities, every node of every run is read back in every run. distinct = (node|edge, order kind, number of batches, set features: collision pair / ''+'0' pair / in-batch duplicates)")
	c.Assume("equal timestamps on one identity, zero times and nodeType edge points are not generated (left open by the property); NaN belongs to C05")
	nSets := c.N(60, 1500)
	k := c.N(4, 8)
	err := vlib.RunOnInstances(vlib.InstCfg{ID: "c01inst", AuthToken: c01Token}, nSets, 4, 35*time.Second, func(in *vlib.Instance, nc *nats.Conn, i int) {
		r := vlib.NewR(c.Seed, "c01", i)
		httpBase := fmt.Sprintf("http://127.0.0.1:%d/v1/nodes/", in.Ports[1])
		httpCl := &http.Client{Timeout: 30 * time.Second}
		defer httpCl.CloseIdleConnections()
		for _, edge := range []bool{false, true} {
			set := genPointSet(r, edge)
			feat := ""
			idc := map[ident]int{}
			raw := map[ident]bool{}
			for _, p := range set {
				idc[identOf(p)]++
				raw[ident{p.Type, p.Key}] = true
			}
			for id := range raw {
				if id.Key == "" && raw[ident{id.Type, "0"}] {
					feat += " emptyAndZeroKey"
				}
			}
			if raw[ident{"ab", ""}] && raw[ident{"a", "b"}] {
				feat += " concatCollision"
			}
			// every fifth set: one batch that holds, for one type, key "", key "0" (the same identity) and a key
			// that sorts between the two (first character below '0')
			var crafted data.Points
			if i%5 == 2 {
				t := "srt" + r.Ident(2)
				mid := []string{" ", "!", "#x", "+1", "-1", ".", "/"}[r.Intn(7)]
				base := int64(1700000000e9) + int64(r.Intn(1000000))
				crafted = data.Points{{Type: t, Key: "", Time: time.Unix(0, base+int64(r.Intn(1000))), Value: 1, Text: "blank"}, {Type: t, Key: mid, Time: time.Unix(0, base+5000), Value: 2, Text: "mid"}, {Type: t, Key: "0", Time: time.Unix(0, base+2000+int64(r.Intn(1000))), Value: 3, Text: "zero"}}
				r.Shuffle(3, func(a, b int) { crafted[a], crafted[b] = crafted[b], crafted[a] })
				feat += " blankZeroAndBetween"
			}
			for d := 0; d < k; d++ {
				batches := genDelivery(r, set)
				if crafted != nil {
					pos := r.Intn(len(batches) + 1)
					batches = append(batches[:pos], append([]data.Points{crafted}, batches[pos:]...)...)
				}
				id := fmt.Sprintf("c01-%d-%v-%d-%s", i, edge, d, r.Ident(6))
				parent := in.RootID
				wit := map[string]any{"case": i, "seed": c.Seed, "edge": edge, "delivery": d, "node": id}
				// create the node (and edge) first
				createInFirst := edge && r.Chance(0.3)
				if !createInFirst {
					if e, err := vlib.SendAck(nc, vlib.EdgeSubj(id, parent), data.Points{{Type: data.PointTypeNodeType, Text: "c01Node"}}); err != nil || e != "" {
						c.Inconclusive(fmt.Sprintf("case %d: could not create node: %v %s", i, err, e))
						return
					}
				}
				// a second placement of the node (mirror below a group of its own, or a move there), made
				// before one of the batches: every way of reading the node must still return each identity once
				alt, altAt, moved := "", -1, false
				if r.Chance(0.35) {
					alt = fmt.Sprintf("c01g-%d-%v-%d-%s", i, edge, d, r.Ident(4))
					altAt = r.Intn(len(batches) + 1)
					moved = !edge && r.Chance(0.4)
					if e, err := vlib.SendAck(nc, vlib.EdgeSubj(alt, in.RootID), data.Points{{Type: data.PointTypeTombstone, Time: time.Unix(1700000000, 0)}, {Type: data.PointTypeNodeType, Text: "group"}}); err != nil || e != "" {
						c.Inconclusive(fmt.Sprintf("case %d: could not create group: %v %s", i, err, e))
						return
					}
				}
				model2 := newestModel{} // edge points of the second placement (its own identities, its own newest)
				placeAlt := func() bool {
					if e, err := vlib.SendAck(nc, vlib.EdgeSubj(id, alt), data.Points{{Type: data.PointTypeTombstone, Time: time.Unix(1700000001, 0)}, {Type: data.PointTypeNodeType, Text: "c01Node"}}); err != nil || e != "" {
						c.Violate("store:legal-write-refused", fmt.Sprintf("mirror edge refused: %v %s", err, e), wit)
						return false
					}
					if moved {
						if e, err := vlib.SendAck(nc, vlib.EdgeSubj(id, parent), data.Points{{Type: data.PointTypeTombstone, Time: time.Unix(1700000002, 0), Value: 1}}); err != nil || e != "" {
							c.Violate("store:legal-write-refused", fmt.Sprintf("tombstone of the old edge refused: %v %s", err, e), wit)
							return false
						}
					}
					wit["second_placement"] = map[string]any{"parent": alt, "before_batch": altAt, "moved": moved}
					model2.deliver(data.Point{Type: data.PointTypeTombstone, Time: time.Unix(1700000001, 0)})
					return true
				}
				model := newestModel{}
				var sent [][]ptW
				ok := true
				altPlaced := false
				for bi, b := range batches {
					if alt != "" && !createInFirst && bi == altAt {
						if !placeAlt() {
							return
						}
						altPlaced = true
					}
					batch := append(data.Points{}, b...)
					if createInFirst && bi == 0 {
						batch = append(batch, data.Point{Type: data.PointTypeNodeType, Text: "c01Node"})
					}
					subj := vlib.NodeSubj(id)
					if edge {
						subj = vlib.EdgeSubj(id, parent)
					}
					// the batch travels one of three ways: as a bus request built by the harness, through the
					// library's SendNodePoints / SendEdgePoints, or (node points) through the HTTP API, which
					// stamps its own origin (none for the instance token) on every point
					// (one way per node: a re-delivered point would otherwise arrive with two origins)
					how := "bus"
					switch {
					case d%4 == 2 || (d%4 == 3 && edge):
						how = "library"
					case d%4 == 3 && jsonable(set) && jsonable(crafted):
						how = "http"
					}
					wit["sent_through"] = how
					var e string
					var err error
					switch how {
					case "library":
						cp := append(data.Points{}, batch...)
						if edge {
							err = client.SendEdgePoints(nc, id, parent, cp, true)
						} else {
							err = client.SendNodePoints(nc, id, cp, true)
						}
						if err != nil && (err == nats.ErrTimeout || strings.Contains(err.Error(), "timeout")) {
							// the library waits one second; the same batch again, with the harness's patience
							e, err = vlib.SendAck(nc, subj, batch)
						} else if err != nil {
							e, err = err.Error(), nil
						}
						c.Count("batches_through_the_library", 1)
					case "http":
						body, _ := json.Marshal(batch)
						var res httpResp
						res, err = doHTTP(httpCl, "POST", httpBase+id+"/points", c01Token, true, body, "application/json")
						if err == nil && res.Status != 200 {
							e = fmt.Sprintf("HTTP %d %s", res.Status, res.Body)
						}
						for k := range b {
							b[k].Origin = ""
						}
						c.Count("batches_through_the_http_api", 1)
					default:
						e, err = vlib.SendAck(nc, subj, batch)
					}
					c.Eval(1)
					sent = append(sent, witnessPoints(batch))
					wit["batches"] = sent
					if err != nil {
						if err == vlib.ErrNoReply {
							c.Violate("store:write-not-answered", "acknowledged write got no reply within 30 s", wit)
						} else {
							c.Inconclusive(fmt.Sprint("send failed: ", err))
						}
						return
					}
					if e != "" {
						c.Violate("store:legal-write-refused", "a legal point batch was refused: "+e, wit)
						ok = false
						break
					}
					for _, p := range b {
						if how == "http" {
							p.Origin = ""
						}
						model.deliver(p)
					}
					nodes, err := client.GetNodes(nc, parent, id, "", true)
					if err != nil || len(nodes) != 1 {
						c.Violate("store:node-unreadable", fmt.Sprintf("node cannot be read back after a write: %v (%d nodes)", err, len(nodes)), wit)
						ok = false
						break
					}
					got := nodes[0].Points
					if edge {
						got = nodes[0].EdgePoints
					}
					if sig, what := storedDiff(model, got, true); sig != "" {
						wit["read"] = witnessPoints(got)
						c.Violate(sig, fmt.Sprintf("after batch %d of %d: %s", bi+1, len(batches), what), wit)
						ok = false
						break
					}
					c.Count("prefix_comparisons", 1)
					if (how == "http" || bi == len(batches)-1) && !(moved && altPlaced) && jsonable(model.points()) {
						// the same read through the HTTP API
						res, herr := doHTTP(httpCl, "GET", httpBase+id, c01Token, true, []byte(parent), "")
						var hn []data.NodeEdge
						if herr == nil && res.Status == 200 {
							herr = json.Unmarshal([]byte(res.Body), &hn)
						}
						if herr != nil || res.Status != 200 || len(hn) != 1 {
							c.Violate("store:node-unreadable", fmt.Sprintf("node cannot be read through the HTTP API after a write: %v, status %d, %d nodes (%.200s)", herr, res.Status, len(hn), res.Body), wit)
							ok = false
							break
						}
						got := hn[0].Points
						if edge {
							got = hn[0].EdgePoints
						}
						if sig, what := storedDiff(model, got, true); sig != "" {
							wit["read"] = witnessPoints(got)
							c.Violate(sig, fmt.Sprintf("after batch %d of %d, read through the HTTP API: %s", bi+1, len(batches), what), wit)
							ok = false
							break
						}
						c.Count("reads_through_the_http_api", 1)
					}
					if altPlaced && edge && r.Chance(0.6) {
						// the other placement gets edge points of the same identities with other timestamps:
						// each edge keeps its own newest point per identity
						var b2 data.Points
						for q := 0; q < 1+r.Intn(4); q++ {
							p := set[r.Intn(len(set))]
							off := int64(bi*104729 + q*7919 + 1)
							if r.Chance(0.7) {
								off = -off
							}
							ns := p.Time.UnixNano() + off
							if ns == 0 {
								ns = 1
							}
							p.Time = time.Unix(0, ns)
							p.Value = float64(bi*10 + q)
							b2 = append(b2, p)
						}
						e, err := vlib.SendAck(nc, vlib.EdgeSubj(id, alt), b2)
						c.Eval(1)
						wit["other_edge_batch"] = witnessPoints(b2)
						if err != nil || e != "" {
							c.Violate("store:legal-write-refused", fmt.Sprintf("edge points for the second placement refused: %v %s", err, e), wit)
							ok = false
							break
						}
						for _, p := range b2 {
							model2.deliver(p)
						}
						c.Count("batches_to_the_second_edge", 1)
					}
					if altPlaced {
						// the same node through its other placement, through parent "all" and in the group's child list
						reads := map[string][]data.NodeEdge{}
						var rerr error
						if reads["parent=all"], rerr = client.GetNodes(nc, "all", id, "", true); rerr == nil {
							if reads["other parent"], rerr = client.GetNodes(nc, alt, id, "", true); rerr == nil {
								reads["children of other parent"], rerr = client.GetNodes(nc, alt, "all", "", true)
							}
						}
						if rerr != nil || len(reads["parent=all"]) != 2 || len(reads["other parent"]) != 1 || len(reads["children of other parent"]) != 1 {
							c.Violate("store:node-unreadable", fmt.Sprintf("a node with two placements is not returned once per placement: %v (all=%d, other parent=%d, children=%d)", rerr, len(reads["parent=all"]), len(reads["other parent"]), len(reads["children of other parent"])), wit)
							ok = false
							break
						}
						for how, ns := range reads {
							for _, n := range ns {
								var got data.Points
								switch {
								case !edge:
									got = n.Points
								case n.Parent == parent:
									got = n.EdgePoints
								default:
									// the other edge: its own model
									if sig, what := storedDiff(model2, n.EdgePoints, true); sig != "" {
										wit["read"] = witnessPoints(n.EdgePoints)
										c.Violate(sig, fmt.Sprintf("after batch %d of %d, edge points of the second placement (below %s) read through %s: %s", bi+1, len(batches), n.Parent, how, what), wit)
										ok = false
									}
									continue
								}
								if sig, what := storedDiff(model, got, true); sig != "" {
									wit["read"] = witnessPoints(got)
									c.Violate(sig, fmt.Sprintf("after batch %d of %d, read through %s (placement below %s): %s", bi+1, len(batches), how, n.Parent, what), wit)
									ok = false
								}
							}
						}
						if !ok {
							break
						}
						c.Count("multi_placement_reads", 1)
					}
				}
				if !ok {
					return
				}
				dup := ""
				for _, b := range batches {
					bc := map[ident]int{}
					for _, p := range b {
						bc[identOf(p)]++
						if bc[identOf(p)] > 1 {
							dup = " inBatchDup"
						}
					}
				}
				nb := len(batches)
				if nb > 8 {
					nb = 8
				}
				pl := ""
				if altPlaced {
					pl = " mirrored"
					if moved {
						pl = " moved"
					}
				}
				c.Distinct(fmt.Sprintf("edge=%v batches=%d%s%s%s", edge, nb, feat, dup, pl))
				if i < 2 && d == 0 {
					c.Sample(map[string]any{"edge": edge, "batches": sent})
				}
			}
		}
	})
	if err != nil {
		c.CheckError(err.Error())
	}
	// ---- second and later runs on the same data file: what earlier runs stored is untouched by what is
	// delivered now (new nodes, new identities on old nodes), and everything reads back by the same rule
	nRestart := c.N(4, 40)
	vlib.Parallel(nRestart, 4, func(i int) {
		r := vlib.NewR(c.Seed, "c01restart", i)
		dir, derr := os.MkdirTemp("", "verif-c01-")
		if derr != nil {
			c.Inconclusive(derr.Error())
			return
		}
		defer os.RemoveAll(dir)
		file := filepath.Join(dir, "store.sqlite")
		models := map[string]newestModel{}
		var order []string
		wit := map[string]any{"case": i, "seed": c.Seed, "stage": "restart"}
		for run := 0; run < 3; run++ {
			in, err := vlib.StartInstance(vlib.InstCfg{ID: fmt.Sprintf("c01r-%d", i), StoreFile: file})
			if err != nil {
				c.Violate("store:file-does-not-reopen", fmt.Sprintf("run %d on the same file: %v", run+1, err), wit)
				return
			}
			nc, err := in.Connect()
			if err != nil {
				in.StopKeepFiles()
				c.Inconclusive(err.Error())
				return
			}
			bad := func() bool {
				// new nodes of this run, and new identities on nodes of earlier runs
				var targets []string
				for q := 0; q < 2; q++ {
					id := fmt.Sprintf("r%d-%d-%d", i, run, q)
					if e, err := vlib.SendAck(nc, vlib.EdgeSubj(id, in.RootID), data.Points{{Type: data.PointTypeNodeType, Text: "c01Node"}}); err != nil || e != "" {
						c.Violate("store:legal-write-refused", fmt.Sprint(err, e), wit)
						return true
					}
					models[id] = newestModel{}
					order = append(order, id)
					targets = append(targets, id)
				}
				if run > 0 {
					targets = append(targets, order[r.Intn(len(order)-2)])
				}
				for _, id := range targets {
					set := genPointSet(r, false)
					for _, b := range genDelivery(r, set) {
						batch := append(data.Points{}, b...)
						for k := range batch {
							batch[k].Type = fmt.Sprintf("run%d-", run) + batch[k].Type // identities this file has not seen before
						}
						e, err := vlib.SendAck(nc, vlib.NodeSubj(id), batch)
						c.Eval(1)
						if err != nil || e != "" {
							c.Violate("store:legal-write-refused", fmt.Sprint(err, e), wit)
							return true
						}
						for _, p := range batch {
							models[id].deliver(p)
						}
					}
				}
				// every node of every run so far
				for _, id := range order {
					nodes, err := client.GetNodes(nc, in.RootID, id, "", true)
					if err != nil || len(nodes) != 1 {
						c.Violate("store:node-unreadable", fmt.Sprintf("run %d: node %s of an earlier run cannot be read: %v (%d)", run+1, id, err, len(nodes)), wit)
						return true
					}
					if sig, what := storedDiff(models[id], nodes[0].Points, true); sig != "" {
						wit["node"], wit["read"] = id, witnessPoints(nodes[0].Points)
						c.Violate(sig, fmt.Sprintf("run %d on the same file, node %s: %s", run+1, id, what), wit)
						return true
					}
					c.Count("nodes_compared_across_restarts", 1)
				}
				return false
			}()
			in.StopKeepFiles()
			if bad {
				return
			}
		}
		c.Distinct("three runs on one file")
	})
	c.Require("prefix_comparisons", 100)
	return c.Finish()
}
