package checks

import (
	"fmt"
	"sync"
	"sync/atomic"
	"time"

	"github.com/nats-io/nats.go"
	"github.com/simpleiot/simpleiot/client"
	"github.com/simpleiot/simpleiot/data"
)

// VChild / VNode are the instrumented client's configuration types. Their Go
// names give the node types "vChild" and "vNode".
type VChild struct {
	ID          string `node:"id"`
	Parent      string `node:"parent"`
	Description string `point:"description"`
	Level       int    `point:"level"`
}

// VNode is the config of the instrumented client.
type VNode struct {
	ID          string            `node:"id"`
	Parent      string            `node:"parent"`
	Description string            `point:"description"`
	Port        int               `point:"port"`
	Gain        float64           `point:"gain"`
	Chan        uint8             `point:"chan"` // a value outside 0..255 makes the configuration undecodable
	Tags        []string          `point:"tag"`
	Opts        map[string]string `point:"opt"`
	Role        string            `edgepoint:"role"`
	Kids        []VChild          `child:"vChild"`
}

// vEvent is one observation of the instrumented client or of a manager hook.
type vEvent struct {
	Seq    int64
	Kind   string // construct, run-start, stop-called, run-returned, points, edgePoints, scanStart, scanDone, mark
	Key    string // parent/id of the client
	Client int64  // client instance number
	Node   string
	Parent string
	Points data.Points
	Config *VNode
}

// vMonitor collects events from all instrumented clients of one manager.
type vMonitor struct {
	cgates  map[string]chan struct{} // constructors held back by the harness (by node id)
	mu      sync.Mutex
	seq     int64
	events  []vEvent
	nextCl  int64
	delay   func(site string) time.Duration // injected delays (nil = none)
	clients map[int64]*vClient
	gates   map[int64]chan struct{} // client number -> gate its Points calls wait at
}

func newVMonitor() *vMonitor {
	return &vMonitor{clients: map[int64]*vClient{}, gates: map[int64]chan struct{}{}}
}

// hold makes the client's Points calls block until the returned func is called.
func (m *vMonitor) hold(client int64) (release func()) {
	g := make(chan struct{})
	m.mu.Lock()
	m.gates[client] = g
	m.mu.Unlock()
	return func() {
		m.mu.Lock()
		delete(m.gates, client)
		m.mu.Unlock()
		close(g)
	}
}

func (m *vMonitor) add(e vEvent) int64 {
	m.mu.Lock()
	m.seq++
	e.Seq = m.seq
	m.events = append(m.events, e)
	s := m.seq
	m.mu.Unlock()
	return s
}

// mark records a harness-side marker and returns its sequence number.
func (m *vMonitor) mark(what string) int64 { return m.add(vEvent{Kind: "mark", Node: what}) }

func (m *vMonitor) snapshot() []vEvent {
	m.mu.Lock()
	defer m.mu.Unlock()
	return append([]vEvent{}, m.events...)
}

func (m *vMonitor) sleep(site string) {
	if m.delay != nil {
		if d := m.delay(site); d > 0 {
			time.Sleep(d)
		}
	}
}

// vClient is the instrumented client.
type vClient struct {
	mon     *vMonitor
	n       int64
	key     string
	config  VNode
	stop    chan struct{}
	stopped int32
}

// gateConstruct makes the constructor of the client for node id wait (at most 15 s) until release is called.
func (m *vMonitor) gateConstruct(id string) (release func()) {
	ch := make(chan struct{})
	m.mu.Lock()
	if m.cgates == nil {
		m.cgates = map[string]chan struct{}{}
	}
	m.cgates[id] = ch
	m.mu.Unlock()
	var once sync.Once
	return func() { once.Do(func() { close(ch) }) }
}

func (m *vMonitor) construct(_ *nats.Conn, config VNode) client.Client {
	// a constructor that takes a while: this runs between the manager's read of the node and its subscription
	m.sleep("client.construct")
	m.mu.Lock()
	gate := m.cgates[config.ID]
	delete(m.cgates, config.ID)
	m.mu.Unlock()
	if gate != nil {
		m.add(vEvent{Kind: "construct-entered", Node: config.ID, Parent: config.Parent})
		select {
		case <-gate:
		case <-time.After(15 * time.Second):
		}
	}
	m.mu.Lock()
	m.nextCl++
	n := m.nextCl
	m.mu.Unlock()
	c := &vClient{mon: m, n: n, key: config.Parent + "/" + config.ID, config: config, stop: make(chan struct{})}
	cfg := config
	cfg.Kids = append([]VChild{}, config.Kids...)
	cfg.Tags = append([]string{}, config.Tags...)
	if config.Opts != nil {
		cfg.Opts = map[string]string{}
		for k, v := range config.Opts {
			cfg.Opts[k] = v
		}
	}
	m.mu.Lock()
	m.clients[n] = c
	m.mu.Unlock()
	m.add(vEvent{Kind: "construct", Key: c.key, Client: n, Node: config.ID, Parent: config.Parent, Config: &cfg})
	return c
}

func (c *vClient) Run() error {
	c.mon.sleep("client.runStart")
	c.mon.add(vEvent{Kind: "run-start", Key: c.key, Client: c.n})
	<-c.stop
	c.mon.sleep("client.runReturn")
	c.mon.add(vEvent{Kind: "run-returned", Key: c.key, Client: c.n})
	return nil
}

func (c *vClient) Stop(_ error) {
	c.mon.add(vEvent{Kind: "stop-called", Key: c.key, Client: c.n})
	if atomic.CompareAndSwapInt32(&c.stopped, 0, 1) {
		close(c.stop)
	}
}

func (c *vClient) Points(id string, pts []data.Point) {
	// a client that is busy for a while: the call does not return until the harness opens the gate
	c.mon.mu.Lock()
	gate := c.mon.gates[c.n]
	c.mon.mu.Unlock()
	if gate != nil {
		<-gate
	}
	c.mon.add(vEvent{Kind: "points", Key: c.key, Client: c.n, Node: id, Points: append(data.Points{}, pts...)})
}

func (c *vClient) EdgePoints(id, parent string, pts []data.Point) {
	c.mon.add(vEvent{Kind: "edgePoints", Key: c.key, Client: c.n, Node: id, Parent: parent, Points: append(data.Points{}, pts...)})
}

// runningClients folds the event log: clients constructed and not yet run-returned, per key.
func runningClients(evs []vEvent) map[string][]vEvent {
	open := map[int64]vEvent{}
	for _, e := range evs {
		switch e.Kind {
		case "construct":
			open[e.Client] = e
		case "run-returned":
			delete(open, e.Client)
		}
	}
	out := map[string][]vEvent{}
	for _, e := range open {
		out[e.Key] = append(out[e.Key], e)
	}
	return out
}

// overlapViolation checks I1: a construct for a placement while the previous
// client of that placement has not returned from Run.
func overlapViolation(evs []vEvent) string {
	open := map[string]int64{}
	for _, e := range evs {
		switch e.Kind {
		case "construct":
			if prev, ok := open[e.Key]; ok {
				return fmt.Sprintf("client #%d constructed for placement %s while client #%d of the same placement is still running (event %d)", e.Client, e.Key, prev, e.Seq)
			}
			open[e.Key] = e.Client
		case "run-returned":
			if open[e.Key] == e.Client {
				delete(open, e.Key)
			}
		}
	}
	return ""
}

var _ = client.SendNodePoint
