package checks

import (
	"fmt"
	"sort"
	"sync"
	"time"

	"github.com/simpleiot/simpleiot/client"
	"github.com/simpleiot/simpleiot/data"

	"verifharness/internal/vlib"
)

// c14EndToEnd is the other place the property is observed at: the active state of schedule conditions of a
// running rule. A rule with 1-3 schedule conditions is configured through points (the weekday list in the
// several layouts a front end may write: all seven days, only the chosen days, a run of days from Sunday on,
// index 0 spelt with a blank key), a sibling node then sends trigger points that carry chosen instants, and after
// each processed batch every condition's state must be what the definition says for that instant.
func c14EndToEnd(c *vlib.Ctx) {
	nCases := c.N(8, 60)
	anchors := []time.Time{
		time.Date(2023, 7, 16, 0, 0, 0, 0, time.UTC),
		time.Date(2023, 12, 28, 0, 0, 0, 0, time.UTC),
		time.Date(2024, 2, 26, 0, 0, 0, 0, time.UTC),
	}
	zones := []*time.Location{time.UTC, time.FixedZone("p14", 14*3600), time.FixedZone("m12", -12*3600), time.FixedZone("p0545", 5*3600+45*60)}
	vlib.Parallel(nCases, 3, func(i int) {
		r := vlib.NewR(c.Seed, "c14e2e", i)
		in, err := vlib.StartInstance(vlib.InstCfg{ID: fmt.Sprintf("c14e-%d", i)})
		if err != nil {
			c.Inconclusive("end to end: " + err.Error())
			return
		}
		defer in.Stop()
		nc, err := in.Connect()
		if err != nil {
			c.Inconclusive(err.Error())
			return
		}
		mnc, err := in.Connect()
		if err != nil {
			c.Inconclusive(err.Error())
			return
		}
		tag := fmt.Sprintf("e%d", i)
		clock := int64(1750000000e9)
		now := func() time.Time { clock += 1000; return time.Unix(0, clock) }
		var log []string
		send := func(subj string, pts data.Points) bool {
			e, err := vlib.SendAck(nc, subj, pts)
			log = append(log, fmt.Sprintf("%s %v -> %q %v", subj, witnessPoints(pts), e, err))
			if err != nil || e != "" {
				c.Inconclusive(fmt.Sprintf("end to end: set-up write refused: %v %s", err, e))
				return false
			}
			return true
		}
		mkNode := func(id, parent, typ string, pts data.Points) bool {
			if len(pts) > 0 && !send(vlib.NodeSubj(id), pts) {
				return false
			}
			return send(vlib.EdgeSubj(id, parent), data.Points{{Type: data.PointTypeTombstone, Time: now()}, {Type: data.PointTypeNodeType, Text: typ}})
		}
		pt := func(t, key, text string, v float64) data.Point {
			return data.Point{Type: t, Key: key, Time: now(), Text: text, Value: v, Origin: "setup"}
		}
		P, src, ruleID := tag+"-P", tag+"-src", tag+"-rule"
		if !mkNode(P, in.RootID, "group", nil) || !mkNode(src, P, "variable", data.Points{pt("description", "", "source", 0)}) ||
			!mkNode(ruleID, P, data.NodeTypeRule, data.Points{pt("description", "", "rule "+tag, 0)}) {
			return
		}
		anchor := anchors[i%len(anchors)]
		nCond := 1 + r.Intn(3)
		cfgs := map[string]*schedCfg{}
		layouts := map[string]string{}
		var late []func() bool // weekday lists written after the rule has started
		var condIDs []string
		for k := 0; k < nCond; k++ {
			id := fmt.Sprintf("%s-c%d", tag, k)
			condIDs = append(condIDs, id)
			cfg := &schedCfg{}
			switch r.Intn(3) {
			case 0: // wraps past midnight
				cfg.sMin, cfg.eMin = 14*60+r.Intn(600), r.Intn(13*60)
			case 1:
				cfg.sMin = r.Intn(1300)
				cfg.eMin = cfg.sMin + 1 + r.Intn(1439-cfg.sMin)
			default:
				cfg.sMin, cfg.eMin = r.Intn(1440), r.Intn(1440)
			}
			cfg.Start, cfg.End = hhmm(r, cfg.sMin), hhmm(r, cfg.eMin)
			pts := data.Points{pt(data.PointTypeConditionType, "", data.PointValueSchedule, 0), pt(data.PointTypeStart, "", cfg.Start, 0), pt(data.PointTypeEnd, "", cfg.End, 0)}
			var wpts data.Points
			layout := []string{"all-seven", "chosen-only", "run-from-sunday", "run-from-sunday", "blank-key", "none"}[(i+k)%6]
			switch layout {
			case "all-seven":
				mask := 1 + r.Intn(126)
				for w := 0; w < 7; w++ {
					v := 0.0
					if mask&(1<<w) != 0 {
						v = 1
						cfg.Weekdays = append(cfg.Weekdays, time.Weekday(w))
					}
					wpts = append(wpts, pt(data.PointTypeWeekday, fmt.Sprint(w), "", v))
				}
			case "chosen-only":
				mask := 1 + r.Intn(126)
				for w := 0; w < 7; w++ {
					if mask&(1<<w) != 0 {
						cfg.Weekdays = append(cfg.Weekdays, time.Weekday(w))
						wpts = append(wpts, pt(data.PointTypeWeekday, fmt.Sprint(w), "", 1))
					}
				}
			case "run-from-sunday": // Sunday .. some day, every one of them chosen, nothing written for the rest
				last := r.Intn(6)
				for w := 0; w <= last; w++ {
					cfg.Weekdays = append(cfg.Weekdays, time.Weekday(w))
					wpts = append(wpts, pt(data.PointTypeWeekday, fmt.Sprint(w), "", 1))
				}
			case "blank-key": // index 0 under its other spelling
				cfg.Weekdays = append(cfg.Weekdays, time.Sunday)
				wpts = append(wpts, pt(data.PointTypeWeekday, "", "", 1))
				if w := 1 + r.Intn(6); r.Chance(0.6) {
					cfg.Weekdays = append(cfg.Weekdays, time.Weekday(w))
					wpts = append(wpts, pt(data.PointTypeWeekday, fmt.Sprint(w), "", 1))
				}
			}
			r.Shuffle(len(wpts), func(a, b int) { wpts[a], wpts[b] = wpts[b], wpts[a] })
			layouts[id] = layout
			if r.Chance(0.35) {
				for q := 0; q < 1+r.Intn(4); q++ {
					ds := anchor.AddDate(0, 0, r.Intn(9)-1).Format("2006-01-02")
					pts = append(pts, pt(data.PointTypeDate, fmt.Sprint(len(cfg.Dates)), ds, 0))
					cfg.Dates = append(cfg.Dates, ds)
				}
				layouts[id] += "+dates"
			}
			if len(wpts) > 0 && r.Chance(0.4) {
				cid, w := id, wpts
				late = append(late, func() bool { return send(vlib.NodeSubj(cid), w) })
				layouts[id] += " (weekdays written while running)"
			} else {
				pts = append(pts, wpts...)
			}
			cfgs[id] = cfg
			if !mkNode(id, ruleID, data.NodeTypeCondition, pts) {
				return
			}
		}

		// ---- observe the rule
		type ev struct {
			process bool
			node    string
			points  data.Points
			active  map[string]bool
			config  bool
		}
		var mu sync.Mutex
		var evs []ev
		unhook := addClientHook(func(site string, args ...any) {
			if len(args) < 1 || args[0] != ruleID {
				return
			}
			mu.Lock()
			defer mu.Unlock()
			switch site {
			case "rule.process":
				evs = append(evs, ev{process: true, node: args[1].(string), points: append(data.Points{}, args[2].(data.Points)...)})
			case "rule.configPoints":
				evs = append(evs, ev{config: true, node: args[1].(string)})
			case "rule.batchDone":
				a := map[string]bool{}
				for _, cc := range args[1].(client.Rule).Conditions {
					a[cc.ID] = cc.Active
				}
				evs = append(evs, ev{active: a})
			}
		})
		defer unhook()
		snapshot := func() []ev { mu.Lock(); defer mu.Unlock(); return append([]ev{}, evs...) }
		mgr := client.NewManager(mnc, client.NewRuleClient, nil)
		mdone := make(chan error, 1)
		go func() { mdone <- mgr.Run() }()
		defer func() {
			mgr.Stop(nil)
			select {
			case <-mdone:
			case <-time.After(30 * time.Second):
			}
		}()
		wit := map[string]any{"case": i, "seed": c.Seed, "stage": "end-to-end", "conditions": cfgs, "weekday_layout": layouts, "host_zone": time.Local.String()}
		// the rule is up once it processes a probe trigger from the sibling
		seq := 0
		trigger := func(t time.Time) bool {
			seq++
			return send(vlib.NodeSubj(src), data.Points{{Type: data.PointTypeTrigger, Key: fmt.Sprint(seq), Time: t, Origin: "harness"}})
		}
		processed := func(key string) bool {
			for _, e := range snapshot() {
				if e.process && len(e.points) == 1 && e.points[0].Type == data.PointTypeTrigger && e.points[0].Key == key && e.node == src {
					return true
				}
			}
			return false
		}
		up := false
		for try := 0; try < 100 && !up && !vlib.Aborted(); try++ {
			if !trigger(anchor) {
				return
			}
			for w := 0; w < 10 && !up; w++ {
				time.Sleep(20 * time.Millisecond)
				up = processed(fmt.Sprint(seq))
			}
		}
		if !up {
			c.Inconclusive("end to end: the rule client did not start processing within 20 s")
			return
		}
		// weekday lists that arrive while the rule runs
		nConfig := 0
		for _, e := range snapshot() {
			if e.config {
				nConfig++
			}
		}
		for _, f := range late {
			if !f() {
				return
			}
		}
		for w := 0; w < 500; w++ {
			n := 0
			for _, e := range snapshot() {
				if e.config {
					n++
				}
			}
			if n >= nConfig+len(late) {
				break
			}
			time.Sleep(20 * time.Millisecond)
			if w == 499 {
				c.Inconclusive("end to end: configuration points did not reach the running rule within 10 s")
				return
			}
		}
		// ---- the instants
		var ts []time.Time
		for d := -1; d <= 8; d++ {
			day := anchor.AddDate(0, 0, d)
			for _, cfg := range cfgs {
				ts = append(ts, day.Add(time.Duration(cfg.sMin)*time.Minute), day.Add(time.Duration(cfg.sMin)*time.Minute-time.Nanosecond),
					day.Add(time.Duration(cfg.eMin)*time.Minute), day.Add(time.Duration(cfg.eMin)*time.Minute-time.Nanosecond))
			}
			for q := 0; q < 3; q++ {
				ts = append(ts, day.Add(time.Duration(r.Intn(1440))*time.Minute))
			}
		}
		r.Shuffle(len(ts), func(a, b int) { ts[a], ts[b] = ts[b], ts[a] })
		if len(ts) > 90 {
			ts = ts[:90]
		}
		first := seq + 1
		half := len(ts) / 2
		for _, t := range ts[:half] {
			if vlib.Aborted() || !trigger(t.In(zones[r.Intn(len(zones))])) {
				return
			}
		}
		for w := 0; w < 1500 && !processed(fmt.Sprint(seq)); w++ {
			time.Sleep(20 * time.Millisecond)
		}
		// ---- the date lists of the running rule change (one date more, or the last one taken away); the second half
		// of the instants is judged by the new lists
		oldCfgs := map[string]schedCfg{}
		for id, cfg := range cfgs {
			oc := *cfg
			oc.Dates = append([]string{}, cfg.Dates...)
			oldCfgs[id] = oc
		}
		editFrom := seq + 1
		nBefore := 0
		for _, e := range snapshot() {
			if e.config {
				nBefore++
			}
		}
		nEdits := 0
		for _, id := range condIDs {
			cfg := cfgs[id]
			var ep data.Points
			if len(cfg.Dates) > 0 && r.Chance(0.5) {
				k := len(cfg.Dates) - 1
				dp := pt(data.PointTypeDate, fmt.Sprint(k), cfg.Dates[k], 0)
				dp.Tombstone = 1
				ep = data.Points{dp}
				cfg.Dates = cfg.Dates[:k]
				layouts[id] += " -date"
			} else {
				ds := anchor.AddDate(0, 0, r.Intn(9)-1).Format("2006-01-02")
				ep = data.Points{pt(data.PointTypeDate, fmt.Sprint(len(cfg.Dates)), ds, 0)}
				cfg.Dates = append(cfg.Dates, ds)
				layouts[id] += " +date"
			}
			if !send(vlib.NodeSubj(id), ep) {
				return
			}
			nEdits++
		}
		for w := 0; w < 500; w++ {
			n := 0
			for _, e := range snapshot() {
				if e.config {
					n++
				}
			}
			if n >= nBefore+nEdits {
				break
			}
			time.Sleep(20 * time.Millisecond)
			if w == 499 {
				c.Inconclusive("end to end: date edits did not reach the running rule within 10 s")
				return
			}
		}
		for _, t := range ts[half:] {
			if vlib.Aborted() || !trigger(t.In(zones[r.Intn(len(zones))])) {
				return
			}
		}
		for w := 0; w < 1500 && !processed(fmt.Sprint(seq)); w++ {
			time.Sleep(20 * time.Millisecond)
		}
		if !processed(fmt.Sprint(seq)) {
			c.Inconclusive("end to end: the last trigger was not processed within 30 s")
			return
		}
		time.Sleep(50 * time.Millisecond) // its batchDone
		// ---- judge: every processed trigger batch (the harness's and the rule's own ticker) against the definition
		all := snapshot()
		checked := 0
		for k, e := range all {
			if !e.process || len(e.points) != 1 || e.points[0].Type != data.PointTypeTrigger {
				continue
			}
			cfgOf := func(id string) schedCfg { return *cfgs[id] }
			if e.node == src {
				var n int
				fmt.Sscan(e.points[0].Key, &n)
				if n < first {
					continue // probes sent before the configuration was complete
				}
				if n < editFrom {
					cfgOf = func(id string) schedCfg { return oldCfgs[id] }
				}
			} else if func() bool { // a ticker run: which lists it saw is only certain after the last edit has arrived
				seen := 0
				for _, b := range all[:k] {
					if b.config {
						seen++
					}
				}
				return seen < nBefore+nEdits
			}() {
				continue
			} else if nConfig+len(late) > 0 && k < len(all) && func() bool { // a ticker run before the late lists arrived
				seen := 0
				for _, b := range all[:k] {
					if b.config {
						seen++
					}
				}
				return seen < nConfig+len(late)
			}() {
				continue
			}
			var done *ev
			for q := k + 1; q < len(all); q++ {
				if all[q].process || all[q].config {
					break
				}
				if all[q].active != nil {
					done = &all[q]
					break
				}
			}
			if done == nil {
				continue
			}
			T := e.points[0].Time
			ids := append([]string{}, condIDs...)
			sort.Strings(ids)
			for _, id := range ids {
				cf := cfgOf(id)
				want := refActive(cf, T)
				got, ok := done.active[id]
				if !ok {
					c.Violate("schedule:condition-missing-in-rule", fmt.Sprintf("the running rule does not list condition %s", id), wit)
					return
				}
				c.Eval(1)
				if got != want {
					wit["instant"], wit["instant_utc"], wit["weekday_utc"], wit["log"] = T.Format(time.RFC3339Nano), T.UTC().Format(time.RFC3339Nano), T.UTC().Weekday().String(), log
					c.Violate("schedule:condition-state-wrong", fmt.Sprintf("schedule condition %s (%s-%s, weekdays %v written as %s, dates %v) is active=%v after a trigger for %s (%s UTC), the definition says %v",
						id, cf.Start, cf.End, cf.Weekdays, layouts[id], cf.Dates, got, T.Format(time.RFC3339Nano), T.UTC().Weekday(), want), wit)
					return
				}
			}
			checked++
		}
		c.Count("condition_states_checked_after_triggers", int64(checked))
		// ---- what everybody else sees: the active point of each condition in the store is the state the rule
		// holds after its last evaluation (the instants came in no particular order: a state that flips back
		// on an earlier instant has to be stored like any other)
		for try := 0; try < 6; try++ {
			before := snapshot()
			kids, err := client.GetNodes(nc, ruleID, "all", "", false)
			after := snapshot()
			if err != nil {
				c.Inconclusive("end to end: reading the conditions: " + err.Error())
				break
			}
			if len(after) != len(before) {
				time.Sleep(300 * time.Millisecond) // the rule evaluated something meanwhile: ask again
				continue
			}
			var last map[string]bool
			for q := len(before) - 1; q >= 0 && last == nil; q-- {
				last = before[q].active
			}
			for _, k := range kids {
				want, ok := last[k.ID]
				if !ok {
					continue
				}
				got := false
				if p, found := k.Points.Find(data.PointTypeActive, ""); found {
					got = p.Value != 0
				}
				c.Eval(1)
				if got != want {
					wit["log"] = log
					c.Violate("schedule:stored-active-point-differs", fmt.Sprintf("condition %s: the rule holds active=%v after its last evaluation, the store's active point says %v", k.ID, want, got), wit)
					return
				}
			}
			c.Count("stored_active_points_compared", 1)
			break
		}
		for _, id := range condIDs {
			c.Distinct("e2e layout=" + layouts[id])
		}
		if checked < len(ts)/2 {
			c.Inconclusive(fmt.Sprintf("end to end: only %d of %d triggers could be paired with the state after them", checked, len(ts)))
		}
	})
}
