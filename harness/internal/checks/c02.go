package checks

import (
	"fmt"
	"os"
	"sort"
	"strings"
	"sync"
	"sync/atomic"
	"time"

	"github.com/nats-io/nats.go"
	"github.com/simpleiot/simpleiot/client"
	"github.com/simpleiot/simpleiot/data"

	"verifharness/internal/vlib"
)

func init() { Registry["C02"] = runC02 }

type syncNodeRec struct {
	ID, Parent, Type string
	OnD, OnU         bool // known to exist on that side (created there, or synced at a barrier)
	Deleted          bool
}

type syncWrite struct {
	Side   string
	Edge   bool
	Node   string
	Parent string
	Point  data.Point
	Acked  bool
}

type syncCase struct {
	c       *vlib.Ctx
	wd      *vlib.Watchdog
	i       int
	r       *vlib.R
	D, U    *vlib.Instance
	ncD     *nats.Conn
	ncU     *nats.Conn
	devID   string
	uRoot   string
	syncID  string
	passes  int64
	clock   int64
	nodes   []*syncNodeRec
	writes  []syncWrite
	log     []string
	mu      sync.Mutex
	tapped  map[string]bool // "side|subject|type|key|ts" of every write seen on a bus
	linkUp  bool
	uPorts  [4]int
	uFile   string
	outage  map[string]bool // op kinds performed while the link was down
	history map[string]bool
	midMu   sync.Mutex
	mid     *midPass
	bare    *vlib.BareNats // the upstream's bus when it runs separately from the upstream instance
}

// midPass is a write the harness performs from inside a catch-up pass: it is armed for one of the
// sync.* hook sites and runs in the sync client's own goroutine when the pass reaches that site, i.e.
// exactly between two steps of the comparison (local fetch | remote fetch | compare | children).
type midPass struct {
	site  string
	op    func(nodeID string)
	fired chan struct{}
}

func (s *syncCase) note(f string, a ...any) {
	s.log = append(s.log, fmt.Sprintf(f, a...))
	if os.Getenv("VERIF_DEBUG") != "" {
		fmt.Fprintf(os.Stderr, "\nC02[%d] %s\n", s.i, s.log[len(s.log)-1])
	}
}

func (s *syncCase) now() time.Time {
	s.clock += 1000 + int64(s.r.Intn(1000))
	return time.Unix(0, s.clock)
}

func (s *syncCase) tap(side string, nc *nats.Conn) error {
	for _, subj := range []string{"p.*", "p.*.*"} {
		_, err := nc.Subscribe(subj, func(m *nats.Msg) {
			pts, err := data.PbDecodePoints(m.Data)
			if err != nil {
				return
			}
			s.mu.Lock()
			for _, p := range pts {
				k := p.Key
				if k == "" {
					k = "0"
				}
				s.tapped[fmt.Sprintf("%s|%s|%s|%d", m.Subject, p.Type, k, p.Time.UnixNano())] = true
			}
			s.mu.Unlock()
		})
		if err != nil {
			return err
		}
	}
	return nc.Flush()
}

func (s *syncCase) wit(extra map[string]any) map[string]any {
	m := map[string]any{"case": s.i, "seed": s.c.Seed, "steps": s.log, "device": s.devID}
	for k, v := range extra {
		m[k] = v
	}
	return m
}

// write sends an acknowledged write on one side and records it.
func (s *syncCase) write(side string, edge bool, node, parent string, p data.Point) error {
	nc := s.ncD
	if side == "U" {
		nc = s.ncU
	}
	subj := vlib.NodeSubj(node)
	if edge {
		subj = vlib.EdgeSubj(node, parent)
	}
	pts := data.Points{p}
	if edge && p.Type == data.PointTypeTombstone && p.Text != "" {
		// creation: text carries the node type
		pts = data.Points{{Type: data.PointTypeTombstone, Time: p.Time, Value: p.Value, Origin: p.Origin}, {Type: data.PointTypeNodeType, Text: p.Text}}
		p.Text = ""
	}
	e, err := vlib.SendAck(nc, subj, pts)
	w := syncWrite{Side: side, Edge: edge, Node: node, Parent: parent, Point: p, Acked: err == nil && e == ""}
	s.writes = append(s.writes, w)
	s.note("%s %s %s type=%s key=%q v=%v t=%d -> %q %v", side, map[bool]string{true: "edge", false: "node"}[edge], subj, p.Type, p.Key, p.Value, p.Time.UnixNano(), e, err)
	if err != nil {
		return err
	}
	if e != "" {
		return fmt.Errorf("write refused on %s: %s", side, e)
	}
	return nil
}

func (s *syncCase) waitPasses(n int64, why string) {
	target := atomic.LoadInt64(&s.passes) + n
	done := s.wd.Watch("sync:no-catch-up-pass-while-link-up", s.wit(map[string]any{"waiting_for": why}), 120*time.Second, true)
	defer done()
	for atomic.LoadInt64(&s.passes) < target {
		time.Sleep(5 * time.Millisecond)
	}
}

type subtreeDump struct {
	Placements map[string]data.NodeEdge // parent/id (top edge keyed "TOP/<dev>")
}

func (s *syncCase) dump(nc *nats.Conn, topParent string) (map[string]data.NodeEdge, error) {
	out := map[string]data.NodeEdge{}
	tops, err := client.GetNodes(nc, topParent, s.devID, "", true)
	if err != nil {
		return nil, err
	}
	if len(tops) == 0 {
		return out, nil
	}
	// (the device node may have further placements - above it, which is not what is compared: once it has been
	// shown in a second place upstream, that edge, deleted or not, may be known downstream as well)
	top := tops[0]
	for _, t := range tops {
		if t.Parent == topParent {
			top = t
		}
	}
	out["TOP/"+s.devID] = top
	var rec func(id string, depth int) error
	rec = func(id string, depth int) error {
		if depth > 40 {
			return fmt.Errorf("too deep")
		}
		kids, err := client.GetNodes(nc, id, "all", "", true)
		if err != nil {
			return err
		}
		for _, k := range kids {
			key := k.Parent + "/" + k.ID
			if _, ok := out[key]; ok {
				continue
			}
			out[key] = k
			if err := rec(k.ID, depth+1); err != nil {
				return err
			}
		}
		return nil
	}
	return out, rec(s.devID, 0)
}

func newestMap(ps data.Points) map[[2]string]data.Point {
	m := map[[2]string]data.Point{}
	for _, p := range ps {
		k := p.Key
		if k == "" {
			k = "0"
		}
		m[[2]string{p.Type, k}] = p
	}
	return m
}

// diffSides returns "" if both subtrees agree, otherwise a description and a class.
func (s *syncCase) diffSides() (class, what string, err error) {
	d, err := s.dump(s.ncD, "root")
	if err != nil {
		return "", "", err
	}
	u, err := s.dump(s.ncU, s.uRoot)
	if err != nil {
		return "", "", err
	}
	var keys []string
	for k := range d {
		keys = append(keys, k)
	}
	for k := range u {
		if _, ok := d[k]; !ok {
			keys = append(keys, k)
		}
	}
	sort.Strings(keys)
	for _, k := range keys {
		dn, okD := d[k]
		un, okU := u[k]
		switch {
		case !okU:
			return "placement-missing-upstream", fmt.Sprintf("placement %s exists downstream only", k), nil
		case !okD:
			return "placement-missing-downstream", fmt.Sprintf("placement %s exists upstream only", k), nil
		}
		cmp := func(kind string, a, b data.Points) (string, string) {
			ma, mb := newestMap(a), newestMap(b)
			// the store's own once-a-minute metric points (an instance older than 60 s writes them to its root,
			// i.e. to the device node) are a background writer that never rests: a walk of one side before such a
			// write and of the other side after it is not a disagreement of the two sides
			for id := range ma {
				if strings.HasPrefix(id[0], "metric") {
					delete(ma, id)
				}
			}
			for id := range mb {
				if strings.HasPrefix(id[0], "metric") {
					delete(mb, id)
				}
			}
			for id, pa := range ma {
				pb, ok := mb[id]
				if !ok {
					return kind + "-point-missing-upstream", fmt.Sprintf("%s: %s point %v exists downstream only", k, kind, id)
				}
				if pa.Time.UnixNano() != pb.Time.UnixNano() || pa.Value != pb.Value || pa.Text != pb.Text || pa.Tombstone != pb.Tombstone || string(pa.Data) != string(pb.Data) {
					cls := kind + "-point-differs"
					if id[0] == data.PointTypeTombstone {
						cls = "deletion-state-differs"
					}
					return cls, fmt.Sprintf("%s: %s point %v: downstream t=%d v=%v %q, upstream t=%d v=%v %q", k, kind, id, pa.Time.UnixNano(), pa.Value, pa.Text, pb.Time.UnixNano(), pb.Value, pb.Text)
				}
			}
			for id := range mb {
				if _, ok := ma[id]; !ok {
					return kind + "-point-missing-downstream", fmt.Sprintf("%s: %s point %v exists upstream only", k, kind, id)
				}
			}
			return "", ""
		}
		if c, w := cmp("node", dn.Points, un.Points); c != "" {
			return c, w, nil
		}
		if !strings.HasPrefix(k, "TOP/") { // the device's own top edge is deliberately not synchronised
			if c, w := cmp("edge", dn.EdgePoints, un.EdgePoints); c != "" {
				return c, w, nil
			}
		}
	}
	return "", "", nil
}

func runC02(tier string, _ []string) int {
	c := vlib.NewCtx("C02", tier, "exploration")
	vlib.SetPortBlock(2)
	c.SetRule("per scenario a downstream instance (real Sync client, period 1 s) linked to a bare upstream instance; a PRNG history of 6-25 acknowledged steps over {node-point write, edge-point write, create node, delete, undelete} x {downstream, upstream} x nodes inside the device subtree (nested groups), interleaved with link loss (sync node disabled), recovery, upstream restarts on the same file (also in two steps: the bus first, the store later, so that the downstream's reconnect and first catch-up attempt find a bus nobody answers on; and once with the upstream running on other ports for a while, out of the downstream's reach with the link still enabled, accepting writes there - that scenario ends without further steps, so that the downstream has no change of its own as a reason to compare), restarts of the downstream instance itself, and writes placed *inside* a catch-up pass (performed from the sync.afterLocalFetch / afterRemoteFetch / beforeChildren hook sites in the sync client's own goroutine, aimed at the node the pass is comparing), always followed by a fixed list of corner scenarios (both sides write one identity during an outage; create upstream / downstream during an outage; delete downstream / upstream during an outage; delete + undelete; nested create under a node created during the outage; an identity rewritten with its old content and a newer time after the other side wrote another value; the device node itself mirrored into a group of the upstream and taken out again before an outage). After the last write the link is up; catch-up passes are counted passively (nodes.all.<device> requests on the downstream bus) and after each pass both device subtrees are walked (deleted included) and compared: placements, newest point per identity of every node and edge. Convergence is demanded within 10 passes and must then hold on two consecutive walks; the agreed value of every identity the harness wrote must be at least as new as the newest acknowledged write on either side, and anything newer must have been seen on a bus. distinct = (set of operation kinds performed during outages, passes needed)")
	c.Assume("the device's own top edge upstream is not compared (deliberately not synchronised); origins are not compared (whole-node transfer stamps the sync node as origin); binary data and tombstone counts are; equal timestamps on one identity are not generated")
	nScen := c.N(21, 160)
	wd := c.NewWatchdog()
	corners := []string{"both-write-same-identity", "create-upstream", "create-downstream", "delete-downstream", "delete-upstream", "delete-undelete-downstream", "nested-create-downstream", "nested-create-upstream", "upstream-restart", "mid-pass", "upstream-restart-store-late", "edge-point-upstream", "downstream-restart", "glued-identities", "glued-identities", "late-delivery", "late-delivery", "same-content-rewritten", "device-mirrored-upstream", "upstream-away", "random"}
	vlib.Parallel(nScen, 4, func(i int) {
		r := vlib.NewR(c.Seed, "c02", i)
		s := &syncCase{c: c, wd: wd, i: i, r: r, clock: 1750000000e9, tapped: map[string]bool{}, outage: map[string]bool{}, history: map[string]bool{}}
		var err error
		s.U, err = vlib.StartInstance(vlib.InstCfg{ID: fmt.Sprintf("c02u-%d", i)})
		if err != nil {
			c.Inconclusive(err.Error())
			return
		}
		s.uFile, s.uPorts = s.U.Opts.StoreFile, s.U.Ports
		firstU := s.U
		defer func() {
			s.U.Stop()
			if s.bare != nil {
				s.bare.Stop()
			}
			firstU.Cleanup()
		}()
		s.D, err = vlib.StartInstance(vlib.InstCfg{ID: fmt.Sprintf("c02d-%d", i), Clients: func(nc *nats.Conn) []client.RunStop {
			return []client.RunStop{client.NewManager(nc, client.NewSyncClient, nil)}
		}})
		if err != nil {
			c.Inconclusive(err.Error())
			return
		}
		firstD := s.D
		defer func() { s.D.Stop(); firstD.Cleanup() }()
		dFile, dPorts := s.D.Opts.StoreFile, s.D.Ports
		s.devID, s.uRoot = s.D.RootID, s.U.RootID
		if s.ncD, err = s.D.Connect(); err != nil {
			c.Inconclusive(err.Error())
			return
		}
		if s.ncU, err = s.U.Connect(); err != nil {
			c.Inconclusive(err.Error())
			return
		}
		_, _ = s.ncD.Subscribe("nodes.all."+s.devID, func(*nats.Msg) { atomic.AddInt64(&s.passes, 1) })
		_ = s.tap("D", s.ncD)
		_ = s.tap("U", s.ncU)
		s.syncID = fmt.Sprintf("sync%d", i)
		if err := client.SendNodeType(s.ncD, client.Sync{ID: s.syncID, Parent: s.devID, Description: "link", URI: s.U.Opts.NatsServer, Period: 1}, "harness"); err != nil {
			c.Inconclusive("cannot create the sync node: " + err.Error())
			return
		}
		s.linkUp = true
		rmHook := addClientHook(func(site string, args ...any) {
			if !strings.HasPrefix(site, "sync.") || len(args) < 3 {
				return
			}
			if sid, _ := args[0].(string); sid != s.syncID {
				return
			}
			s.midMu.Lock()
			m := s.mid
			if m == nil || m.site != site {
				s.midMu.Unlock()
				return
			}
			s.mid = nil
			s.midMu.Unlock()
			id, _ := args[2].(string)
			m.op(id) // the scenario goroutine is parked on m.fired meanwhile
			close(m.fired)
		})
		defer rmHook()
		fail := func(sig, what string, extra map[string]any) { c.Violate(sig, what, s.wit(extra)) }
		// initial transfer
		s.waitPasses(2, "initial transfer")
		setLink := func(up bool) error {
			v := 1.0
			if up {
				v = 0
			}
			if e, err := vlib.SendAck(s.ncD, vlib.NodeSubj(s.syncID), data.Points{{Type: data.PointTypeDisabled, Time: s.now(), Value: v, Origin: "harness"}}); err != nil || e != "" {
				return fmt.Errorf("link toggle refused: %v %s", err, e)
			}
			s.linkUp = up
			s.note("LINK %v", up)
			if !up {
				// make sure it really is down: a probe written downstream must not arrive upstream
				for try := 0; try < 40; try++ {
					pt := data.Point{Type: "probe", Time: s.now(), Value: float64(try), Origin: "harness"}
					if e, err := vlib.SendAck(s.ncD, vlib.NodeSubj(s.devID), data.Points{pt}); err != nil || e != "" {
						return fmt.Errorf("probe refused: %v %s", err, e)
					}
					time.Sleep(120 * time.Millisecond)
					ns, err := client.GetNodes(s.ncU, s.uRoot, s.devID, "", true)
					if err == nil && len(ns) == 1 {
						if p, ok := ns[0].Points.Find("probe", ""); !ok || p.Time.UnixNano() != pt.Time.UnixNano() {
							return nil
						}
					}
				}
				return fmt.Errorf("%w: link does not go down", vlib.ErrInfra)
			}
			return nil
		}
		barrier := func() {
			s.waitPasses(3, "barrier")
			for _, n := range s.nodes {
				n.OnD, n.OnU = true, true
			}
		}
		pick := func(side string) *syncNodeRec {
			var cand []*syncNodeRec
			for _, n := range s.nodes {
				if (side == "D" && n.OnD) || (side == "U" && n.OnU) {
					cand = append(cand, n)
				}
			}
			if len(cand) == 0 {
				return nil
			}
			return cand[r.Intn(len(cand))]
		}
		mark := func(kind string) {
			s.history[kind] = true
			if !s.linkUp {
				s.outage[kind] = true
			}
		}
		create := func(side string, parent *syncNodeRec, typ string) (*syncNodeRec, error) {
			pid := s.devID
			if parent != nil {
				pid = parent.ID
			}
			n := &syncNodeRec{ID: fmt.Sprintf("x%d-%d", i, len(s.nodes)), Parent: pid, Type: typ, OnD: side == "D", OnU: side == "U"}
			if err := s.write(side, true, n.ID, pid, data.Point{Type: data.PointTypeTombstone, Time: s.now(), Text: typ, Origin: "harness"}); err != nil {
				return nil, err
			}
			if err := s.write(side, false, n.ID, "", data.Point{Type: "description", Time: s.now(), Text: "node " + n.ID, Origin: "harness"}); err != nil {
				return nil, err
			}
			s.nodes = append(s.nodes, n)
			mark("create@" + side)
			return n, nil
		}
		lastContent := map[string]data.Point{}
		nodeWrite := func(side string, n *syncNodeRec) error {
			mark("write@" + side)
			// (identities whose type+key strings coincide when glued together are included: v/10, v1/0, v1/"")
			typ, key := []string{"value", "description", "units"}[r.Intn(3)], []string{"", "1"}[r.Intn(2)]
			if r.Chance(0.35) {
				typ, key = []string{"v", "v1", "v10"}[r.Intn(3)], []string{"", "0", "10", "1"}[r.Intn(4)]
			}
			p := data.Point{Type: typ, Key: key, Time: s.now(), Value: float64(r.Intn(1000)), Text: "t" + r.Ident(3), Origin: "harness"}
			if r.Chance(0.25) {
				p.Data = []byte("d" + r.Ident(1+r.Intn(6)))
			}
			if r.Chance(0.1) {
				p.Tombstone = []int{1, 2, 3}[r.Intn(3)]
			}
			// one write in six repeats what was written to this identity last, with a newer time
			ik := n.ID + "|" + typ + "|" + key
			if key == "" {
				ik = n.ID + "|" + typ + "|0"
			}
			if prev, ok := lastContent[ik]; ok && r.Chance(0.17) {
				prev.Time = p.Time
				p = prev
			}
			lastContent[ik] = p
			return s.write(side, false, n.ID, "", p)
		}
		// a delivery that comes late: older than what the identity already holds (on this side), with another
		// value and a higher tombstone count - it must lose on both sides, whatever the link does meanwhile
		staleWrite := func(side string, n *syncNodeRec) error {
			var cands []syncWrite
			for _, w := range s.writes {
				if w.Acked && !w.Edge && w.Node == n.ID && w.Point.Type != "probe" {
					cands = append(cands, w)
				}
			}
			if len(cands) == 0 {
				return nodeWrite(side, n)
			}
			w := cands[r.Intn(len(cands))]
			mark("stalewrite@" + side)
			p := w.Point
			p.Time = p.Time.Add(-time.Duration(1+r.Intn(400)) * time.Nanosecond)
			p.Value, p.Text, p.Tombstone = p.Value+0.5, "stale", w.Point.Tombstone+1+r.Intn(2)
			return s.write(side, false, n.ID, "", p)
		}
		edgeWrite := func(side string, n *syncNodeRec) error {
			mark("edgewrite@" + side)
			return s.write(side, true, n.ID, n.Parent, data.Point{Type: []string{"role", "sortOrder", "ext"}[r.Intn(3)], Key: []string{"", "1", "k"}[r.Intn(3)], Time: s.now(), Value: float64(r.Intn(100)), Text: "r" + r.Ident(3), Origin: "harness"})
		}
		setDeleted := func(side string, n *syncNodeRec, del bool) error {
			v := 0.0
			if del {
				v = 1
			}
			n.Deleted = del
			if del {
				mark("delete@" + side)
			} else {
				mark("undelete@" + side)
			}
			return s.write(side, true, n.ID, n.Parent, data.Point{Type: data.PointTypeTombstone, Time: s.now(), Value: v, Origin: "harness"})
		}
		stopU := func() {
			s.ncU.Close()
			s.U.StopKeepFiles()
			if s.bare != nil {
				s.bare.Stop()
				s.bare = nil
			}
		}
		// the upstream comes back in two steps: its bus accepts connections first (the downstream's
		// reconnect and its first catch-up attempt meet a bus nobody answers on), the store later
		restartULate := func() error {
			mark("upstream-restart-store-late")
			s.note("RESTART upstream, bus first, store later")
			stopU()
			bn, err := vlib.StartBareNats(s.uPorts[0], "")
			if err != nil {
				return err
			}
			s.bare = bn
			for w := 0; w < 2000 && bn.S.NumClients() == 0; w++ { // the sync client reconnects within its 10 s reconnect wait
				time.Sleep(10 * time.Millisecond)
			}
			s.note("downstream connections on the upstream bus before the store is there: %d", bn.S.NumClients())
			time.Sleep(time.Duration(100+s.r.Intn(1400)) * time.Millisecond)
			nu, err := vlib.StartInstance(vlib.InstCfg{StoreFile: s.uFile, Ports: s.uPorts, ExternalNats: true})
			if err != nil {
				return fmt.Errorf("%w: upstream does not restart on an external bus: %v", vlib.ErrInfra, err)
			}
			s.U = nu
			if s.ncU, err = s.U.Connect(); err != nil {
				return err
			}
			if err := s.tap("U", s.ncU); err != nil {
				return err
			}
			// bounded progress: with the upstream complete again, catch-up passes must resume
			s.waitPasses(2, "catch-up after the upstream's store came back")
			return nil
		}
		// the downstream instance itself is restarted on its file (the sync client starts afresh from
		// the stored configuration; the link is up again once it has reconnected)
		restartD := func() error {
			mark("downstream-restart")
			s.note("RESTART downstream")
			s.ncD.Close()
			s.D.StopKeepFiles()
			nd, err := vlib.StartInstance(vlib.InstCfg{StoreFile: dFile, Ports: dPorts, Clients: func(nc *nats.Conn) []client.RunStop {
				return []client.RunStop{client.NewManager(nc, client.NewSyncClient, nil)}
			}})
			if err != nil {
				return fmt.Errorf("%w: downstream does not restart: %v", vlib.ErrInfra, err)
			}
			s.D = nd
			if s.ncD, err = s.D.Connect(); err != nil {
				return err
			}
			if _, err := s.ncD.Subscribe("nodes.all."+s.devID, func(*nats.Msg) { atomic.AddInt64(&s.passes, 1) }); err != nil {
				return err
			}
			if err := s.tap("D", s.ncD); err != nil {
				return err
			}
			if s.linkUp {
				s.waitPasses(2, "catch-up after the downstream restart")
			}
			return nil
		}
		// the upstream runs for a while where the downstream cannot reach it (same file, other ports) and
		// accepts writes there: an outage that is not a configured one - the link stays enabled, the
		// connection drops, and what the upstream accepted meanwhile has to come down by catch-up
		restartUAway := func() error {
			mark("upstream-away")
			s.note("RESTART upstream on other ports (out of the downstream's reach)")
			var away [4]int
			for k := range away {
				away[k], _ = vlib.FreePort() // taken while the usual ports are still held, so they differ
			}
			stopU()
			nu, err := vlib.StartInstance(vlib.InstCfg{StoreFile: s.uFile, Ports: away})
			if err != nil {
				return fmt.Errorf("%w: upstream does not restart on other ports: %v", vlib.ErrInfra, err)
			}
			s.U = nu
			if s.ncU, err = s.U.Connect(); err != nil {
				return err
			}
			return s.tap("U", s.ncU)
		}
		restartU := func() error {
			mark("upstream-restart")
			s.note("RESTART upstream")
			stopU()
			nu, err := vlib.StartInstance(vlib.InstCfg{StoreFile: s.uFile, Ports: s.uPorts})
			if err != nil {
				return fmt.Errorf("%w: upstream does not restart: %v", vlib.ErrInfra, err)
			}
			s.U = nu
			if s.ncU, err = s.U.Connect(); err != nil {
				return err
			}
			if err := s.tap("U", s.ncU); err != nil {
				return err
			}
			s.waitPasses(2, "catch-up after the upstream restart")
			return nil
		}
		// ---- scenario
		var scErr error
		step := func(e error) bool {
			if e != nil && scErr == nil {
				scErr = e
			}
			return scErr == nil
		}
		// a write placed inside a catch-up pass (link up)
		midStep := func() {
			site := []string{"sync.afterLocalFetch", "sync.afterRemoteFetch", "sync.beforeChildren"}[r.Intn(3)]
			side := []string{"D", "U"}[r.Intn(2)]
			roll := r.Intn(100)
			m := &midPass{site: site, fired: make(chan struct{})}
			m.op = func(id string) {
				var n *syncNodeRec
				for _, x := range s.nodes {
					if x.ID == id && ((side == "D" && x.OnD) || (side == "U" && x.OnU)) {
						n = x
					}
				}
				if n == nil {
					n = pick(side)
				}
				if n == nil {
					return
				}
				s.note("MIDPASS at %s (pass is at node %s): next step happens inside the pass", site, id)
				mark("midpass@" + strings.TrimPrefix(site, "sync."))
				switch {
				case roll < 50:
					step(nodeWrite(side, n))
				case roll < 65:
					step(edgeWrite(side, n))
				case roll < 80:
					step(setDeleted(side, n, !n.Deleted))
				default:
					var par *syncNodeRec
					if n.Type == "group" && !n.Deleted {
						par = n
					}
					_, e := create(side, par, []string{"group", "variable"}[r.Intn(2)])
					step(e)
				}
				c.Count("writes_placed_inside_a_pass:"+strings.TrimPrefix(site, "sync."), 1)
			}
			done := s.wd.Watch("sync:no-catch-up-pass-while-link-up", s.wit(map[string]any{"waiting_for": "mid-pass write at " + site}), 120*time.Second, true)
			defer done()
			s.midMu.Lock()
			s.mid = m
			s.midMu.Unlock()
			target := atomic.LoadInt64(&s.passes) + 3
			for {
				select {
				case <-m.fired:
					return
				default:
				}
				if atomic.LoadInt64(&s.passes) >= target {
					// the site was not reached (sites below the root are only passed when hashes differ)
					s.midMu.Lock()
					mine := s.mid == m
					if mine {
						s.mid = nil
					}
					s.midMu.Unlock()
					if mine {
						return
					}
					<-m.fired // it is running right now
					return
				}
				time.Sleep(2 * time.Millisecond)
			}
		}
		g1, e := create("D", nil, "group")
		step(e)
		var v1, v2 *syncNodeRec
		if step(nil) {
			v1, e = create("D", g1, []string{"variable", "device"}[i%2])
			step(e)
		}
		if step(nil) {
			v2, e = create("D", nil, "variable")
			step(e)
		}
		if scErr == nil {
			barrier()
		}
		corner := corners[i%len(corners)]
		if tier == "thorough" && i == len(corners) {
			corner = "many-children" // (once per thorough run: it takes about a minute)
		}
		if scErr == nil {
			switch corner {
			case "both-write-same-identity":
				step(setLink(false))
				for k := 0; k < 3 && step(nil); k++ {
					side := []string{"D", "U"}[k%2]
					mark("write@" + side)
					step(s.write(side, false, v1.ID, "", data.Point{Type: "value", Time: s.now(), Value: float64(100 + k), Origin: "harness"}))
				}
			case "device-mirrored-upstream":
				// upstream-only housekeeping on the device node itself: it is shown in a second place (a group of
				// the upstream) and taken out of it again. What is written below the device afterwards, on either
				// side of an outage, converges as before
				ug := fmt.Sprintf("ug%d", i)
				for _, rq := range []struct {
					subj string
					pts  data.Points
				}{
					{vlib.EdgeSubj(ug, s.uRoot), data.Points{{Type: data.PointTypeTombstone, Time: s.now(), Origin: "harness"}, {Type: data.PointTypeNodeType, Text: "group"}}},
					{vlib.EdgeSubj(s.devID, ug), data.Points{{Type: data.PointTypeTombstone, Time: s.now(), Origin: "harness"}, {Type: data.PointTypeNodeType, Text: "device"}}},
					{vlib.EdgeSubj(s.devID, ug), data.Points{{Type: data.PointTypeTombstone, Time: s.now(), Value: 1, Origin: "harness"}}},
				} {
					if e, err := vlib.SendAck(s.ncU, rq.subj, rq.pts); err != nil || e != "" {
						step(fmt.Errorf("upstream housekeeping %s refused: %v %s", rq.subj, err, e))
						break
					}
					s.note("U edge %s %v", rq.subj, witnessPoints(rq.pts))
				}
				mark("mirror-device@U")
				if step(nil) {
					s.waitPasses(1, "a pass after the device was shown in a second place upstream")
				}
				step(setLink(false))
				for k := 0; k < 2 && step(nil); k++ {
					side := []string{"D", "U"}[k%2]
					mark("write@" + side)
					step(s.write(side, false, v1.ID, "", data.Point{Type: "value", Key: "m", Time: s.now(), Value: float64(300 + k), Origin: "harness"}))
				}
			case "many-children":
				// scale (thorough tier): more than a thousand children below the device, created while the link is
				// down; every one of them has to arrive upstream
				step(setLink(false))
				nKids := 1020 + r.Intn(60)
				for k := 0; k < nKids && step(nil); k++ {
					id := fmt.Sprintf("x%d-kid%04d", i, k)
					if e, err := vlib.SendAck(s.ncD, vlib.EdgeSubj(id, s.devID), data.Points{{Type: data.PointTypeTombstone, Time: s.now(), Origin: "harness"}, {Type: data.PointTypeNodeType, Text: "variable"}}); err != nil || e != "" {
						step(fmt.Errorf("child %d refused: %v %s", k, err, e))
					}
				}
				mark("create@D")
				s.note("D %d children created below the device", nKids)
			case "same-content-rewritten":
				// an identity holds a value on both sides; during an outage the upstream writes another value and,
				// later, the downstream writes the old value again (same value, text and origin, newer time):
				// that is the newest write, and it is what both sides must end with
				p := data.Point{Type: "value", Key: []string{"", "1"}[r.Intn(2)], Time: s.now(), Value: float64(5 + r.Intn(3)), Text: []string{"", "same"}[r.Intn(2)], Origin: "harness"}
				mark("write@D")
				step(s.write("D", false, v1.ID, "", p))
				if scErr == nil {
					barrier()
				}
				step(setLink(false))
				q := p
				q.Time, q.Value = s.now(), p.Value+2
				mark("write@U")
				step(s.write("U", false, v1.ID, "", q))
				p.Time = s.now()
				mark("write@D")
				step(s.write("D", false, v1.ID, "", p))
				if r.Chance(0.5) && step(nil) {
					p.Time = s.now()
					step(s.write("D", false, v1.ID, "", p))
				}
			case "create-upstream":
				step(setLink(false))
				_, e := create("U", g1, "variable")
				step(e)
			case "create-downstream":
				step(setLink(false))
				_, e := create("D", g1, "variable")
				step(e)
			case "delete-downstream":
				step(setLink(false))
				step(setDeleted("D", v1, true))
			case "delete-upstream":
				step(setLink(false))
				step(setDeleted("U", v2, true))
			case "delete-undelete-downstream":
				step(setLink(false))
				step(setDeleted("D", v1, true))
				step(setDeleted("D", v1, false))
			case "nested-create-downstream":
				step(setLink(false))
				ng, e := create("D", g1, "group")
				step(e)
				if step(nil) {
					_, e = create("D", ng, "variable")
					step(e)
				}
			case "nested-create-upstream":
				step(setLink(false))
				ng, e := create("U", g1, "group")
				step(e)
				if step(nil) {
					_, e = create("U", ng, "variable")
					step(e)
				}
			case "edge-point-upstream":
				// a node with several node points gets edge-point identities that exist on one side only
				for q := 0; q < 3; q++ {
					step(nodeWrite("D", v1))
				}
				if scErr == nil {
					barrier()
				}
				step(setLink(false))
				step(edgeWrite("U", v1))
				step(edgeWrite("U", v1))
				step(edgeWrite("D", v2))
			case "late-delivery":
				step(nodeWrite("D", v1))
				step(nodeWrite("U", v2))
				if scErr == nil {
					barrier()
				}
				step(setLink(false))
				step(staleWrite([]string{"D", "U"}[i%2], v1))
				step(staleWrite([]string{"U", "D"}[i%2], v2))
			case "glued-identities":
				// two identities of one node whose type and key strings coincide when written one after the
				// other (v/10 and v1/0); one is written downstream, the other - later - upstream, link down
				wr := func(side, typ, key string, v float64) {
					mark("write@" + side)
					step(s.write(side, false, v1.ID, "", data.Point{Type: typ, Key: key, Time: s.now(), Value: v, Origin: "harness"}))
				}
				wr("D", "v", "10", 1)
				wr("D", "v1", "0", 2)
				wr("D", "v1", "00", 3)
				if scErr == nil {
					barrier()
				}
				step(setLink(false))
				if i%2 == 0 {
					wr("D", "v", "10", 11)
					wr("U", "v1", "0", 12)
				} else {
					wr("D", "v1", "0", 13)
					wr("U", "v", "10", 14)
				}
				wr("U", "v1", "00", 15)
			case "mid-pass":
				// make the hashes differ first so that the pass descends, then write inside it
				step(nodeWrite("U", v1))
				midStep()
				if step(nil) {
					step(nodeWrite("D", v2))
					midStep()
				}
			case "downstream-restart":
				step(nodeWrite("U", v1))
				step(restartD())
				step(nodeWrite("D", v2))
				step(setLink(false))
				step(nodeWrite("U", v2))
				step(nodeWrite("D", v1))
				step(restartD()) // restarted while the link is configured down
			case "upstream-restart-store-late":
				step(nodeWrite("D", v1))
				step(restartULate())
				step(nodeWrite("U", v2))
			case "upstream-restart":
				step(nodeWrite("D", v1))
				step(restartU())
				step(nodeWrite("D", v2))
			case "upstream-away":
				// (nothing is written downstream in between: the downstream has no reason of its own to look)
				step(restartUAway())
				step(nodeWrite("U", v1))
				step(nodeWrite("U", v2))
				step(edgeWrite("U", v1))
				step(restartU())
			}
		}
		// random tail
		nSteps := 6 + r.Intn(c.N(10, 20))
		if corner == "upstream-away" {
			// judged as it stands: a later write on the downstream side would give the downstream a reason
			// of its own to compare the two sides, and what matters here is that it looks without one
			nSteps = 0
		}
		for k := 0; k < nSteps && scErr == nil; k++ {
			side := []string{"D", "U"}[r.Intn(2)]
			n := pick(side)
			if n == nil {
				continue
			}
			switch roll := r.Intn(100); {
			case roll < 8:
				step(staleWrite(side, n))
			case roll < 35:
				step(nodeWrite(side, n))
			case roll < 45:
				step(edgeWrite(side, n))
			case roll < 60:
				var par *syncNodeRec
				if p := pick(side); p != nil && p.Type == "group" && !p.Deleted {
					par = p
				}
				// (a device-type node below the device is a three-tier set-up: its edge is an ordinary shared edge)
				_, e := create(side, par, []string{"group", "variable", "device"}[r.Intn(3)])
				step(e)
			case roll < 72:
				step(setDeleted(side, n, !n.Deleted))
			case roll < 84:
				if s.linkUp {
					step(setLink(false))
				} else {
					step(setLink(true))
					if scErr == nil {
						barrier()
					}
				}
			case roll < 86 && s.linkUp:
				step(restartU())
			case roll < 88 && s.linkUp:
				step(restartULate())
			case roll < 90:
				step(restartD())
			case roll < 96 && s.linkUp:
				midStep()
			default:
				step(nodeWrite(side, n))
			}
			c.Eval(1)
		}
		if scErr != nil {
			if strings.Contains(scErr.Error(), vlib.ErrInfra.Error()) {
				c.Inconclusive(fmt.Sprintf("scenario %d: %v", i, scErr))
			} else {
				fail("store:legal-write-refused", scErr.Error(), nil)
			}
			return
		}
		if !s.linkUp {
			if err := setLink(true); err != nil {
				c.Inconclusive(err.Error())
				return
			}
		}
		// ---- convergence in bounded progress
		ops := keysOf(s.outage)
		opsSig := strings.Join(ops, ",")
		if opsSig == "" {
			opsSig = "no-outage-ops"
		}
		equalRuns, lastClass, lastWhat := 0, "", ""
		passesNeeded := 0
		for round := 1; round <= 12; round++ {
			s.waitPasses(1, "convergence")
			if round < 2 {
				continue
			}
			cls, what, err := s.diffSides()
			if err != nil {
				c.Inconclusive(fmt.Sprintf("scenario %d: walk failed: %v", i, err))
				return
			}
			if cls == "" {
				equalRuns++
				if equalRuns == 1 {
					passesNeeded = round
				}
				if equalRuns >= 2 {
					break
				}
			} else {
				if equalRuns > 0 {
					fail("sync:diverges-again-after-agreeing", what, map[string]any{"outage_ops": ops})
					return
				}
				lastClass, lastWhat = cls, what
			}
		}
		if equalRuns < 2 {
			fail("sync:not-converged:"+lastClass+":outage("+opsSig+")", fmt.Sprintf("after 12 catch-up passes with the link up: %s", lastWhat), map[string]any{"outage_ops": ops, "all_ops": keysOf(s.history)})
			return
		}
		c.Count("scenarios_converged", 1)
		// ---- the agreed value is the newest accepted write
		d, err := s.dump(s.ncD, "root")
		if err != nil {
			c.Inconclusive(err.Error())
			return
		}
		newest := map[string]syncWrite{}
		for _, w := range s.writes {
			if !w.Acked {
				continue
			}
			k := w.Point.Key
			if k == "" {
				k = "0"
			}
			id := fmt.Sprintf("%v|%s|%s|%s|%s", w.Edge, w.Node, w.Parent, w.Point.Type, k)
			if cur, ok := newest[id]; !ok || w.Point.Time.After(cur.Point.Time) {
				newest[id] = w
			}
		}
		for id, w := range newest {
			var ne data.NodeEdge
			found := false
			for key, n := range d {
				if n.ID == w.Node && (!w.Edge || strings.HasPrefix(key, w.Parent+"/")) {
					ne, found = n, true
					break
				}
			}
			if !found {
				fail("sync:written-node-vanished", "node "+w.Node+" written by the harness is in neither subtree", nil)
				return
			}
			pts := ne.Points
			if w.Edge {
				pts = ne.EdgePoints
			}
			p, ok := pts.Find(w.Point.Type, w.Point.Key)
			switch {
			case !ok || p.Time.Before(w.Point.Time):
				fail("sync:accepted-write-lost-or-reverted:"+w.Point.Type+":outage("+opsSig+")", fmt.Sprintf("identity %s: both sides agree on t=%d, but a write acknowledged on %s had t=%d", id, p.Time.UnixNano(), w.Side, w.Point.Time.UnixNano()), map[string]any{"outage_ops": ops})
				return
			case p.Time.After(w.Point.Time):
				k := w.Point.Key
				if k == "" {
					k = "0"
				}
				subj := vlib.NodeSubj(w.Node)
				if w.Edge {
					subj = vlib.EdgeSubj(w.Node, w.Parent)
				}
				s.mu.Lock()
				seen := s.tapped[fmt.Sprintf("%s|%s|%s|%d", subj, w.Point.Type, k, p.Time.UnixNano())]
				s.mu.Unlock()
				if !seen {
					fail("sync:agreed-value-nobody-wrote", fmt.Sprintf("identity %s: agreed point t=%d was never seen on either bus", id, p.Time.UnixNano()), nil)
					return
				}
				c.Count("agreed_values_written_by_sync_itself", 1)
			}
		}
		c.Count("identities_checked", int64(len(newest)))
		c.Distinct(fmt.Sprintf("outage(%s) passes=%d", opsSig, passesNeeded))
		if i < 3 {
			c.Sample(map[string]any{"corner": corner, "outage_ops": ops, "steps": s.log, "passes_to_converge": passesNeeded})
		}
	})
	c.Require("scenarios_converged", 3)
	c.Require("identities_checked", 20)
	return c.Finish()
}
