package checks

import (
	"fmt"
	"reflect"

	"github.com/simpleiot/simpleiot/data"

	"verifharness/internal/vlib"
)

func init() { Registry["C10"] = runC10 }

// static types exercise the typed (non reflect.Value) entry points as well
type c10Flat struct {
	A int     `point:"a"`
	B string  `point:"b"`
	C float32 // key "c"
}

type c10Kid struct {
	ID     string   `node:"id"`
	Parent string   `node:"parent"`
	Desc   string   `point:"description"`
	Vals   []uint16 `point:"vals"`
}

type c10Static struct {
	ID      string             `node:"id"`
	Parent  string             `node:"parent"`
	Desc    string             `point:"description"`
	Count   int                `point:"count"`
	On      bool               `point:"on"`
	Ratio   float64            `point:"ratio"`
	PInt    *int32             `point:"pint"`
	PStr    *string            `point:"pstr"`
	PFlat   *c10Flat           `point:"pflat"`
	Flat    c10Flat            `point:"flat"`
	List    []string           `point:"list"`
	Nums    []float64          `point:"nums"`
	Arr     [3]int8            `point:"arr"`
	M       map[string]float64 `point:"m"`
	MS      map[string]string  `point:"ms"`
	Role    string             `edgepoint:"role"`
	Deleted bool               `edgepoint:"tombstone"`
	Kids    []c10Kid           `child:"c10Kid"`
}

func c10StaticGen() *genType {
	t := reflect.TypeOf(c10Static{})
	g := &genType{T: t}
	for i := 0; i < t.NumField(); i++ {
		f := t.Field(i)
		fs := fieldSpec{Name: f.Name}
		switch {
		case f.Tag.Get("node") == "id":
			fs.Tag, fs.Shape = "node", "id"
		case f.Tag.Get("node") == "parent":
			fs.Tag, fs.Shape = "node", "parent"
		case f.Tag.Get("child") != "":
			fs.Tag, fs.Shape, fs.PType = "child", "child", f.Tag.Get("child")
		case f.Tag.Get("point") != "":
			fs.Tag, fs.PType, fs.Shape = "point", f.Tag.Get("point"), f.Type.Kind().String()
		default:
			fs.Tag, fs.PType, fs.Shape = "edgepoint", f.Tag.Get("edgepoint"), f.Type.Kind().String()
		}
		g.Fields = append(g.Fields, fs)
	}
	kt := reflect.TypeOf(c10Kid{})
	g.Child = &genType{T: kt, Fields: []fieldSpec{{Name: "ID", Tag: "node", Shape: "id"}, {Name: "Parent", Tag: "node", Shape: "parent"},
		{Name: "Desc", Tag: "point", PType: "description", Shape: "string"}, {Name: "Vals", Tag: "point", PType: "vals", Shape: "slice"}}}
	return g
}

// childTypeName is the node type under which children of g are grouped.
func childTypeName(g *genType) string {
	for _, f := range g.Fields {
		if f.Shape == "child" {
			return f.PType
		}
	}
	return ""
}

// encodeTree encodes v (of g) including its children the way the store would
// hand them to Decode.
func encodeTree(g *genType, v reflect.Value) (data.NodeEdgeChildren, error) {
	ne, err := data.Encode(v)
	if err != nil {
		return data.NodeEdgeChildren{}, err
	}
	out := data.NodeEdgeChildren{NodeEdge: ne}
	for i, f := range g.Fields {
		if f.Shape != "child" {
			continue
		}
		kids := v.Field(i)
		for j := 0; j < kids.Len(); j++ {
			kc, err := encodeTree(g.Child, kids.Index(j))
			if err != nil {
				return out, err
			}
			kc.NodeEdge.Type = f.PType
			out.Children = append(out.Children, kc)
		}
	}
	return out, nil
}

// mutateValue derives b from a by small edits in point-tagged fields only.
func mutateValue(r *vlib.R, g *genType, a reflect.Value, maxLen int) reflect.Value {
	b := deepCopy(a)
	for i, f := range g.Fields {
		if f.Tag != "point" || !r.Chance(0.5) {
			continue
		}
		fv := b.Field(i)
		t := fv.Type()
		switch t.Kind() {
		case reflect.Slice:
			switch r.Intn(5) {
			case 0: // shrink
				if fv.Len() > 0 {
					fv.Set(fv.Slice(0, r.Intn(fv.Len())))
				}
			case 1: // grow
				n := fv.Len() + 1 + r.Intn(3)
				if n > maxLen {
					n = maxLen
				}
				s := reflect.MakeSlice(t, n, n)
				reflect.Copy(s, fv)
				for j := fv.Len(); j < n; j++ {
					s.Index(j).Set(genScalar(r, t.Elem()))
				}
				fv.Set(s)
			case 2: // change one
				if fv.Len() > 0 {
					fv.Index(r.Intn(fv.Len())).Set(genScalar(r, t.Elem()))
				}
			case 3: // to empty
				fv.Set(reflect.Zero(t))
			default:
				fv.Set(genShapeValue(r, t, maxLen))
			}
		case reflect.Map:
			if fv.IsNil() || fv.Len() == 0 || r.Chance(0.3) {
				fv.Set(genShapeValue(r, t, 8))
				continue
			}
			keys := fv.MapKeys()
			k := keys[r.Intn(len(keys))]
			switch r.Intn(3) {
			case 0:
				fv.SetMapIndex(k, reflect.Value{}) // remove
			case 1:
				fv.SetMapIndex(k, genScalar(r, t.Elem()))
			default:
				fv.SetMapIndex(reflect.ValueOf(mapKey(r)), genScalar(r, t.Elem()))
			}
		case reflect.Struct:
			if r.Chance(0.5) {
				j := r.Intn(t.NumField())
				fv.Field(j).Set(genFlatField(r, t.Field(j).Type))
			} else {
				fv.Set(genShapeValue(r, t, maxLen))
			}
		case reflect.Pointer:
			if fv.IsNil() || r.Chance(0.4) {
				fv.Set(genShapeValue(r, t, 8))
			} else if r.Chance(0.5) {
				fv.Set(reflect.Zero(t))
			} else if t.Elem().Kind() == reflect.Struct {
				j := r.Intn(t.Elem().NumField())
				fv.Elem().Field(j).Set(genFlatField(r, t.Elem().Field(j).Type))
				if r.Chance(0.3) {
					// every optional field of the struct goes away, the struct itself stays
					for q := 0; q < t.Elem().NumField(); q++ {
						if t.Elem().Field(q).Type.Kind() == reflect.Pointer {
							fv.Elem().Field(q).Set(reflect.Zero(t.Elem().Field(q).Type))
						}
					}
				}
			} else {
				fv.Elem().Set(genScalar(r, t.Elem()))
			}
		default:
			fv.Set(genShapeValue(r, t, maxLen))
		}
	}
	return b
}

func runC10(tier string, _ []string) int {
	c := vlib.NewCtx("C10", tier, "exploration")
	c.SetRule("types: random configuration struct types built with reflect.StructOf (scalars of all 14 kinds, *scalar, *flat struct, flat structs with optional (*scalar) fields, []scalar, [N]scalar, map[string]scalar, flat struct; point/edgepoint tags; node id/parent; child slices up to 2 levels) plus one hand-written static type through the typed API; values: PRNG within documented limits (<=1000 elements, |int|<=2^53-1, non-empty map keys), hostile strings, floats by bit pattern (float64 NaN payloads, canonical float32 NaN). Case = Decode(Encode(a))==a then Merge(Decode(Encode(a)), Diff(a,b))==b for b random or a small edit of a (shrink/grow slice, remove/add map entry, pointer to nil and back, optional fields inside a flat struct to nil while the struct stays); half of the cases continue as a chain of up to 3 further diffs merged into the same value; for types with children a second value is decoded into a destination that has been decoded into before: its children must be those of the second input. distinct = (set of field shapes present in the type, diff kind)")
	c.Assume("equality: nil == empty for slices/maps; a pointer to a struct whose fields are all optional and nil == nil pointer (both are tombstone points only); floats by bits for Encode/Decode, numerically (+0==-0, NaN==NaN) after Diff/Merge because a diff can only see == differences; times of generated points are not compared (Diff stamps time.Now)")
	c.Assume("a and b agree on edge-point fields, node id/parent and children: DiffPoints is documented to describe node points only")
	nVals := c.N(100000, 1000000)
	static := c10StaticGen()
	// deterministic corner pairs at the documented limits (1000 elements)
	{
		bigMap := func(prefix string) map[string]float64 {
			m := map[string]float64{}
			for k := 0; k < 1000; k++ {
				m[fmt.Sprintf("%s%d", prefix, k)] = float64(k)
			}
			return m
		}
		bigList := func(n int, prefix string) []string {
			l := make([]string, n)
			for k := range l {
				l[k] = fmt.Sprintf("%s%d", prefix, k)
			}
			return l
		}
		pairs := []struct {
			name string
			a, b c10Static
		}{
			{"map-1000-replaced-by-disjoint-1000", c10Static{ID: "x", M: bigMap("a")}, c10Static{ID: "x", M: bigMap("b")}},
			{"map-1000-to-empty", c10Static{ID: "x", M: bigMap("a")}, c10Static{ID: "x"}},
			{"slice-1000-to-empty", c10Static{ID: "x", List: bigList(1000, "a")}, c10Static{ID: "x"}},
			{"slice-1000-replaced", c10Static{ID: "x", List: bigList(1000, "a")}, c10Static{ID: "x", List: bigList(1000, "b")}},
			{"slice-1000-to-1", c10Static{ID: "x", List: bigList(1000, "a")}, c10Static{ID: "x", List: bigList(1, "b")}},
			{"slice-empty-to-1000", c10Static{ID: "x"}, c10Static{ID: "x", List: bigList(1000, "b")}},
		}
		for _, p := range pairs {
			c.Eval(1)
			func() {
				defer func() {
					if e := recover(); e != nil {
						c.Violate("config:panic", fmt.Sprint("panic: ", e), map[string]any{"corner": p.name})
					}
				}()
				ne, err := data.Encode(p.a)
				var cur c10Static
				if err == nil {
					err = data.Decode(data.NodeEdgeChildren{NodeEdge: ne}, &cur)
				}
				var pts data.Points
				if err == nil {
					pts, err = data.DiffPoints(p.a, p.b)
				}
				if err == nil {
					err = data.MergePoints("x", pts, &cur)
				}
				if err != nil {
					c.Violate("config:limit-corner-error:"+p.name, "values at the documented limit fail: "+err.Error(), map[string]any{"corner": p.name})
					return
				}
				if d := eqValM(reflect.ValueOf(p.b), reflect.ValueOf(cur), "", false); d != "" {
					c.Violate("config:diffmerge-mismatch", "corner "+p.name+": "+d, map[string]any{"corner": p.name})
					return
				}
				c.Distinct("corner " + p.name)
			}()
		}
	}
	for i := 0; i < nVals; i++ {
		r := vlib.NewR(c.Seed, "c10", i)
		var g *genType
		if i%10 == 9 {
			g = static
		} else {
			g = genConfigType(r, r.Chance(0.3), 0)
		}
		maxLen := 12
		if r.Chance(0.02) {
			maxLen = 1000
		}
		id := "n-" + r.Ident(4)
		a := genConfigValue(r, g, maxLen, id)
		shapes := ""
		for _, f := range g.Fields {
			shapes += f.Shape[:2] + f.Tag[:1] + ","
		}
		wit := func(extra map[string]any) map[string]any {
			m := map[string]any{"case": i, "seed": c.Seed, "type": g.describe(), "a": showVal(a)}
			for k, v := range extra {
				m[k] = v
			}
			return m
		}
		c.Eval(1)
		func() {
			defer func() {
				if e := recover(); e != nil {
					c.Violate("config:panic", fmt.Sprint("panic: ", e), wit(nil))
				}
			}()
			tree, err := encodeTree(g, a)
			if err != nil {
				c.Violate("config:encode-error", "Encode failed inside limits: "+err.Error(), wit(nil))
				return
			}
			out := reflect.New(g.T).Elem()
			if err := data.Decode(tree, out); err != nil {
				c.Violate("config:decode-error", "Decode(Encode(a)) failed: "+err.Error(), wit(nil))
				return
			}
			if d := eqVal(a, out, ""); d != "" {
				c.Violate("config:roundtrip-mismatch", "Decode(Encode(a)) != a at "+d, wit(map[string]any{"got": showVal(out)}))
				return
			}
			if g == static {
				// typed API path as well
				av := a.Interface().(c10Static)
				ne, err := data.Encode(av)
				var back c10Static
				if err == nil {
					kids := tree.Children
					err = data.Decode(data.NodeEdgeChildren{NodeEdge: ne, Children: kids}, &back)
				}
				if err != nil {
					c.Violate("config:static-error", err.Error(), wit(nil))
					return
				}
				if d := eqVal(reflect.ValueOf(av), reflect.ValueOf(back), ""); d != "" {
					c.Violate("config:roundtrip-mismatch", "typed Decode(Encode(a)) != a at "+d, wit(nil))
					return
				}
			}
			c.Distinct("rt " + shapes)

			// the next caller: a destination that has been decoded into before gets its children from the
			// second input alone (child lists are rebuilt, never merged position by position)
			if g.Child != nil {
				a2 := genConfigValue(r, g, 8, id)
				tree2, err := encodeTree(g, a2)
				used := reflect.New(g.T).Elem()
				if err == nil && data.Decode(tree, used) == nil && data.Decode(tree2, used) == nil {
					for fi, f := range g.Fields {
						if f.Shape != "child" || a2.Field(fi).Len() == 0 {
							continue // (an input without children of the type leaves the field alone, like a missing point)
						}
						if d := eqVal(a2.Field(fi), used.Field(fi), "."+f.Name); d != "" {
							c.Violate("config:second-decode-keeps-earlier-children", "children after a second Decode into the same destination differ from the second input at "+d, wit(map[string]any{"second_input": showVal(a2), "got": showVal(used)}))
							return
						}
					}
					c.Count("second_decodes_into_a_used_destination", 1)
				}
			}

			// diff / merge
			var b reflect.Value
			kind := "edit"
			if r.Chance(0.4) {
				kind = "random"
				b = genConfigValue(r, g, maxLen, id)
				// keep non-point fields of a
				for j, f := range g.Fields {
					if f.Tag != "point" {
						b.Field(j).Set(deepCopy(a.Field(j)))
					}
				}
			} else {
				b = mutateValue(r, g, a, maxLen)
			}
			c.Eval(1)
			var pts data.Points
			if g == static && r.Chance(0.5) {
				pts, err = data.DiffPoints(a.Interface().(c10Static), b.Interface().(c10Static))
			} else {
				pts, err = data.DiffPoints(a, b)
			}
			if err != nil {
				c.Violate("config:diff-error", "DiffPoints failed inside limits: "+err.Error(), wit(map[string]any{"b": showVal(b)}))
				return
			}
			if err := data.MergePoints(id, pts, out); err != nil {
				c.Violate("config:merge-error", "MergePoints(Diff(a,b)) failed: "+err.Error(), wit(map[string]any{"b": showVal(b), "diff": witnessPoints(pts)}))
				return
			}
			if d := eqValM(b, out, "", false); d != "" {
				c.Violate("config:diffmerge-mismatch", "Merge(Decode(Encode(a)),Diff(a,b)) != b at "+d, wit(map[string]any{"b": showVal(b), "got": showVal(out), "diff": witnessPoints(pts)}))
				return
			}
			c.Distinct("dm " + kind + " " + shapes)
			c.Count("diff_points", int64(len(pts)))
			// chains: the merged value is the first value of the next pair (it carries whatever the
			// earlier merges left behind: spare capacity, trimmed tails, re-created pointers)
			prev := b
			for step := 2; step <= 4 && r.Chance(0.5); step++ {
				next := mutateValue(r, g, prev, maxLen)
				if r.Chance(0.35) {
					// the way application code edits a configuration it holds: copy the struct, append to one of
					// its slices (the copy shares the backing array with the held value where capacity allows)
					// and diff the held value against the copy
					held := reflect.New(g.T).Elem()
					held.Set(out)
					edited := reflect.New(g.T).Elem()
					edited.Set(out)
					done := false
					for j, f := range g.Fields {
						if f.Tag == "point" && f.Shape == "slice" && !done && r.Chance(0.6) {
							fv := edited.Field(j)
							if fv.Len() >= maxLen {
								continue
							}
							fv.Set(reflect.Append(fv, genScalar(r, fv.Type().Elem())))
							done = true
						}
					}
					if done {
						prev, next = held, edited
						c.Count("in_place_appends", 1)
					}
				}
				c.Eval(1)
				pts, err := data.DiffPoints(prev, next)
				if err != nil {
					c.Violate("config:diff-error", "DiffPoints failed inside limits: "+err.Error(), wit(map[string]any{"step": step, "from": showVal(prev), "to": showVal(next)}))
					return
				}
				if err := data.MergePoints(id, pts, out); err != nil {
					c.Violate("config:merge-error", "MergePoints(Diff(a,b)) failed: "+err.Error(), wit(map[string]any{"step": step, "from": showVal(prev), "to": showVal(next), "diff": witnessPoints(pts)}))
					return
				}
				if d := eqValM(next, out, "", false); d != "" {
					c.Violate("config:diffmerge-mismatch", fmt.Sprintf("step %d of a chain of diffs merged into one value: result != target at %s", step, d), wit(map[string]any{"step": step, "from": showVal(prev), "to": showVal(next), "got": showVal(out), "diff": witnessPoints(pts)}))
					return
				}
				c.Count("chained_steps", 1)
				prev = next
			}
			if i < 3 {
				c.Sample(wit(map[string]any{"b": showVal(b), "diff": witnessPoints(pts)}))
			}
		}()
	}
	c.Require("diff_points", 100)
	return c.Finish()
}
