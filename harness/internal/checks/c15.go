package checks

import (
	"bytes"
	"context"
	"fmt"
	"math"
	"os"
	"os/exec"
	"path/filepath"
	"sort"
	"strings"
	"sync"
	"time"

	"github.com/nats-io/nats.go"
	"github.com/simpleiot/simpleiot/client"
	"github.com/simpleiot/simpleiot/data"

	"verifharness/internal/vlib"
)

func init() { Registry["C15"] = runC15 }

type yamlText struct{ Class, S string }

var c15Texts = []yamlText{
	{"plain", "hello"}, {"plain", "Pump 7"}, {"empty", ""},
	{"bool-like", "yes"}, {"bool-like", "no"}, {"bool-like", "true"}, {"bool-like", "False"}, {"bool-like", "on"}, {"bool-like", "off"}, {"bool-like", "y"}, {"bool-like", "N"},
	{"null-like", "null"}, {"null-like", "~"}, {"null-like", "Null"}, {"null-like", "NULL"},
	{"number-like", "1e3"}, {"number-like", "0x1F"}, {"number-like", "007"}, {"number-like", "1_000"}, {"number-like", "12"}, {"number-like", "-3.5"}, {"number-like", "0o17"}, {"number-like", "+1"}, {"number-like", "1.0"},
	{"inf-like", ".inf"}, {"inf-like", "-.inf"}, {"inf-like", ".nan"}, {"inf-like", ".NaN"},
	{"leading-dash", "- a"}, {"leading-dash", "-"}, {"leading-dash", "-a"}, {"leading-dash", "--- x"},
	{"colon", "key: v"}, {"colon", "a:b"}, {"colon", "a: "}, {"colon", ":"}, {"colon", "http://x.io:80/p?q=1"},
	{"comment", "#c"}, {"comment", "a #c"}, {"comment", "a#c"},
	{"question-prefix", "? a"}, {"question-prefix", "?"},
	{"spaces", " lead"}, {"spaces", "trail "}, {"spaces", "  both  "}, {"spaces", " "},
	{"multiline", "line1\nline2"}, {"multiline", "a\n\nb\n"}, {"multiline", "\nlead"}, {"crlf", "a\r\nb"}, {"crlf", "a\rb"},
	{"tab", "a\tb"}, {"tab", "\tlead"},
	{"quotes", "it's"}, {"quotes", "say \"hi\""}, {"quotes", "'quoted'"}, {"quotes", "\"dq\""}, {"quotes", "back\\slash"}, {"quotes", "'"}, {"quotes", "\""},
	{"flow", "[a, b]"}, {"flow", "{a: b}"}, {"flow", "a, b"}, {"flow", "]"}, {"flow", "}"},
	{"anchor", "&a"}, {"anchor", "*a"}, {"anchor", "!tag"}, {"anchor", "|"}, {"anchor", ">"}, {"anchor", "%y"}, {"anchor", "@a"}, {"anchor", "`a"},
	{"unicode", "日本語"}, {"unicode", "emoji😀"}, {"unicode", "\u202eRTL"}, {"unicode", "é"}, {"unicode", "é"}, {"unicode", "\u00a0nbsp"}, {"unicode", "\u2028ls"}, {"unicode", "\ufeffbom"},
	{"long", "long " + strings.Repeat("word ", 60)}, {"long", strings.Repeat("x", 300)},
	{"date-like", "2023-01-01"}, {"date-like", "12:30"}, {"date-like", "2001-12-14t21:59:43.10-05:00"},
	{"control", "bell\x07"}, {"control", "esc\x1b[0m"}, {"control", "del\x7f"},
	// code points above U+FFFF: printable (emoji, CJK extension B, mathematical letters) and not
	// (tag characters as in subdivision flags, private use planes 15/16, variation selectors supplement)
	{"astral", "flag\U0001F3F4\U000E0067\U000E0062\U000E0073\U000E0063\U000E0074\U000E007F"}, {"astral", "pua\U000F0000x\U0010FFFDy"}, {"astral", "\U00020000cjk-b"},
	{"astral", "math\U0001D400\U0001D7FF"}, {"astral", "vs\U000E0100end"}, {"astral", "\U0001F468\u200d\U0001F469\u200d\U0001F467family"},
	// other format / unassigned / surrogate-adjacent code points inside the BMP
	{"format", "zwsp\u200bx"}, {"format", "shy\u00adx"}, {"format", "lrm\u200ex"}, {"format", "wj\u2060x"}, {"format", "\ufffdrepl"}, {"format", "\ufff9ia"}, {"format", "nel\u0085x"}, {"format", "\ue000pua"},
}

func init() {
	// texts in which a ':' follows k characters that need an escape sequence, k-1 characters before the end
	// (a parser that loses count of the escapes would look for a mapping key exactly there), and a few free forms
	for k := 2; k <= 9; k++ {
		for _, e := range []string{"\"", "\\", "\n", "\t"} {
			c15Texts = append(c15Texts, yamlText{"colon-after-escapes", strings.Repeat(e, k) + ":" + strings.Repeat("e", k-2)})
		}
		c15Texts = append(c15Texts, yamlText{"colon-after-escapes", strings.Repeat("\"q\" ", k/2) + strings.Repeat("\\", k%2) + ": " + strings.Repeat("e", k)[:(k+abs(k-3)-3)/2]})
	}
	c15Texts = append(c15Texts, yamlText{"colon-after-escapes", `say "a" and "b" then "c": end`}, yamlText{"colon-after-escapes", `C:\dir\sub\file: x`}, yamlText{"colon-after-escapes", "a\nb\nc: d"})
}

func abs(x int) int {
	if x < 0 {
		return -x
	}
	return x
}

type valCase struct {
	Class string
	V     float64
}

var c15Vals = []valCase{
	{"int", 0}, {"int", 1}, {"int", -1}, {"int", 42}, {"int", 1000000}, {"frac", 0.5}, {"frac", -3.25}, {"frac", 0.1}, {"frac", 3.141592653589793}, {"frac", 1.0000000000000002},
	{"big-int", 1 << 53}, {"big-int", 123456789012}, {"exponent", 1e21}, {"exponent", 1e-7}, {"exponent", 5e-324}, {"exponent", 1e15}, {"exponent", 1.7976931348623157e308}, {"exponent", -2.5e-10}, {"exponent", 1e100},
	{"inf", math.Inf(1)}, {"inf", math.Inf(-1)},
}

type c15Node struct {
	ID, Type, Marker string
	Points           data.Points // as written (explicit times)
	Parents          []string
}

// canonical point rendering for comparison (times, origin, data ignored)
func c15PointKey(p data.Point) string {
	k := p.Key
	if k == "" {
		k = "0"
	}
	return fmt.Sprintf("%q/%q v=%v txt=%q tomb=%d", p.Type, k, p.Value, p.Text, p.Tombstone)
}

// the siot command line tool, built once per run from the repository the harness itself is built from
var (
	siotOnce sync.Once
	siotBin  string
	siotErr  error
)

func siotCLI() (string, error) {
	siotOnce.Do(func() {
		repo := os.Getenv("VERIF_REPO")
		if repo == "" {
			repo = "/repo"
		}
		dir, err := os.MkdirTemp("", "verif-siot-")
		if err != nil {
			siotErr = err
			return
		}
		siotBin = filepath.Join(dir, "siot")
		cmd := exec.Command("go", "build", "-o", siotBin, "./cmd/siot")
		cmd.Dir = repo
		if out, err := cmd.CombinedOutput(); err != nil {
			siotErr = fmt.Errorf("go build ./cmd/siot: %v: %.400s", err, out)
		}
	})
	return siotBin, siotErr
}

// runSiot runs the tool with stdin and returns stdout, stderr and the exit error.
func runSiot(stdin []byte, args ...string) ([]byte, string, error) {
	bin, err := siotCLI()
	if err != nil {
		return nil, "", err
	}
	ctx, cancel := context.WithTimeout(context.Background(), 90*time.Second)
	defer cancel()
	cmd := exec.CommandContext(ctx, bin, args...)
	cmd.Stdin = bytes.NewReader(stdin)
	var so, se bytes.Buffer
	cmd.Stdout, cmd.Stderr = &so, &se
	err = cmd.Run()
	return so.Bytes(), se.String(), err
}

func runC15(tier string, _ []string) int {
	c := vlib.NewCtx("C15", tier, "exploration")
	vlib.SetPortBlock(15)
	c.SetRule("per case: a generated tree (depth <=5, fan-out <=6, <=60 nodes; every tenth tree has 520-670 more children below its top node, three of them deleted; mirrors inside the tree, deleted children, tombstoned points, keys ''/'0'/index/map keys, nodeID cross-references inside and outside the tree, live and tombstoned) whose point texts come from a pool of YAML-significant / Unicode / control / multi-line strings and whose values cover integers, fractions, exponents and +-Inf, built on a live instance; ExportNodes (the result is held while three more exports are made and must not change) then ImportNodes (same parent, other parent, root of a second instance; with and without preserveIDs; over the original after it has been deleted, ids preserved: it must be back alive); the imported subtree is read back and compared with the source by matching nodes through a unique marker point: shape, types, point multisets (type, key ''=='0', value, text, tombstone), edge points (tombstone 0 == absent), id map bijective and applied to nodeID texts, ' (import)' on the top description only, deleted nodes absent; in every second case without id preservation the same bytes are imported a second time next to the first copy and compared again. Every third tree carries one text of 66-130 KiB on its top node; every sixth case exports and imports through the siot command line tool (built from the same tree): its export must be byte for byte the library's, and what its import creates is compared like any other copy. distinct = (text classes present, value classes present, target kind, preserveIDs)")
	c.Assume("times, origins and data are not compared (import re-stamps; the property lists type, key, value, text, tombstone)")
	nTrees := c.N(30, 500)
	vlib.Parallel(nTrees, 5, func(i int) {
		r := vlib.NewR(c.Seed, "c15", i)
		src, err := vlib.StartInstance(vlib.InstCfg{ID: fmt.Sprintf("c15s-%d", i)})
		if err != nil {
			c.Inconclusive(err.Error())
			return
		}
		defer src.Stop()
		nc, err := src.Connect()
		if err != nil {
			c.Inconclusive(err.Error())
			return
		}
		targetKind := []string{"same-parent", "other-parent", "other-instance", "other-instance-preserve", "restore-deleted"}[i%5]
		// in the focused mode one text class / value class is used so that a failure names its class
		focused := i%2 == 0
		var textPool []yamlText
		var valPool []valCase
		if focused {
			cls := c15Texts[r.Intn(len(c15Texts))].Class
			for _, t := range c15Texts {
				if t.Class == cls || t.Class == "plain" {
					textPool = append(textPool, t)
				}
			}
			vcls := c15Vals[r.Intn(len(c15Vals))].Class
			for _, v := range c15Vals {
				if v.Class == vcls || v.Class == "int" {
					valPool = append(valPool, v)
				}
			}
		} else {
			textPool, valPool = c15Texts, c15Vals
		}
		usedT, usedV := map[string]bool{}, map[string]bool{}
		clock := int64(1750000000e9)
		now := func() time.Time { clock += 1000; return time.Unix(0, clock) }
		send := func(subj string, pts data.Points) error {
			e, err := vlib.SendAck(nc, subj, pts)
			if err != nil {
				return err
			}
			if e != "" {
				return fmt.Errorf("refused: %s", e)
			}
			return nil
		}
		nodes := map[string]*c15Node{}
		var order []string
		mk := func(parent string, depth int) (*c15Node, error) {
			id := fmt.Sprintf("t%d-%d-%s", i, len(order), r.Ident(4))
			n := &c15Node{ID: id, Type: []string{"group", "variable", "tnode", "rule", "db"}[r.Intn(5)], Marker: "mk-" + id, Parents: []string{parent}}
			n.Points = append(n.Points, data.Point{Type: "vmarker", Time: now(), Text: n.Marker})
			np := r.Intn(6)
			keys := []string{"", "0", "1", "2", "name", "a b", "k:1"}
			seen := map[string]bool{"vmarker/0": true}
			for k := 0; k < np; k++ {
				t := textPool[r.Intn(len(textPool))]
				v := valPool[r.Intn(len(valPool))]
				p := data.Point{Type: []string{"description", "value", "units", "tag", "note"}[r.Intn(5)], Key: keys[r.Intn(len(keys))], Time: now(), Text: t.S, Value: v.V}
				kk := p.Key
				if kk == "" {
					kk = "0"
				}
				if seen[p.Type+"/"+kk] {
					continue
				}
				seen[p.Type+"/"+kk] = true
				if r.Chance(0.15) {
					p.Tombstone = []int{1, 1, 2, 3, 4}[r.Intn(5)] // deleted, or deleted and set again: the count is part of the point
				}
				usedT[t.Class], usedV[v.Class] = true, true
				n.Points = append(n.Points, p)
			}
			if err := send(vlib.EdgeSubj(id, parent), data.Points{{Type: data.PointTypeTombstone, Time: now(), Value: 0}, {Type: data.PointTypeNodeType, Text: n.Type}}); err != nil {
				return nil, err
			}
			if r.Chance(0.3) {
				role := data.Point{Type: "role", Time: now(), Text: textPool[r.Intn(len(textPool))].S}
				if err := send(vlib.EdgeSubj(id, parent), data.Points{role}); err != nil {
					return nil, err
				}
			}
			if err := send(vlib.NodeSubj(id), n.Points); err != nil {
				return nil, err
			}
			nodes[id] = n
			order = append(order, id)
			return n, nil
		}
		grp := fmt.Sprintf("grp%d", i)
		if err := send(vlib.EdgeSubj(grp, src.RootID), data.Points{{Type: data.PointTypeNodeType, Text: "group"}, {Type: data.PointTypeTombstone, Time: now(), Value: 0}}); err != nil {
			c.Violate("store:legal-write-refused", err.Error(), nil)
			return
		}
		top, err := mk(grp, 0)
		if err != nil {
			c.Violate("store:legal-write-refused", err.Error(), nil)
			return
		}
		viaCLI := i%6 == 5
		if i%3 == 2 {
			// one text far longer than any line buffer (66-130 KiB on one line), with further points and all the
			// children behind it
			words := []string{"lorem ", "ipsum: ", "dolor, ", "sit #", "amet' ", "\"q\" "}
			var sb strings.Builder
			for sb.Len() < 66000+r.Intn(64000) {
				sb.WriteString(words[r.Intn(len(words))])
			}
			hp := data.Point{Type: "note", Key: "huge", Time: now(), Text: sb.String() + "end"}
			if err := send(vlib.NodeSubj(top.ID), data.Points{hp}); err != nil {
				c.Violate("store:legal-write-refused", err.Error(), nil)
				return
			}
			top.Points = append(top.Points, hp)
			usedT["huge"] = true
		}
		deleted := map[string]bool{}
		var build func(parent *c15Node, depth int) error
		build = func(parent *c15Node, depth int) error {
			if depth >= 5 || len(order) >= c.N(25, 60) {
				return nil
			}
			fan := r.Intn(4)
			if depth < 2 {
				fan = 1 + r.Intn(4)
			}
			for k := 0; k < fan; k++ {
				ch, err := mk(parent.ID, depth+1)
				if err != nil {
					return err
				}
				if r.Chance(0.12) {
					if err := send(vlib.EdgeSubj(ch.ID, parent.ID), data.Points{{Type: data.PointTypeTombstone, Time: now(), Value: 1}}); err != nil {
						return err
					}
					deleted[ch.ID] = true
					continue
				}
				if err := build(ch, depth+1); err != nil {
					return err
				}
			}
			return nil
		}
		if err := build(top, 0); err != nil {
			c.Violate("store:legal-write-refused", err.Error(), nil)
			return
		}
		if i%10 == 7 {
			// scale: one node with several hundred children (more than any page, batch or listing of a few
			// hundred would hold), a few of the early ones deleted
			nKids := 520 + r.Intn(150)
			for k := 0; k < nKids; k++ {
				ch, err := mk(top.ID, 1)
				if err != nil {
					c.Violate("store:legal-write-refused", err.Error(), nil)
					return
				}
				if k == 3 || k == 57 || k == 411 {
					if err := send(vlib.EdgeSubj(ch.ID, top.ID), data.Points{{Type: data.PointTypeTombstone, Time: now(), Value: 1}}); err != nil {
						c.Violate("store:legal-write-refused", err.Error(), nil)
						return
					}
					deleted[ch.ID] = true
				}
			}
			usedT["many-children"] = true
		}
		// cross references and mirrors
		var live []string
		for _, id := range order {
			if !deleted[id] {
				live = append(live, id)
			}
		}
		outside := "outside-" + r.Ident(6)
		for k := 0; k < 1+r.Intn(3) && len(live) > 1; k++ {
			from, to := nodes[live[r.Intn(len(live))]], live[r.Intn(len(live))]
			if r.Chance(0.25) {
				to = outside
			}
			p := data.Point{Type: data.PointTypeNodeID, Key: fmt.Sprint(k), Time: now(), Text: to}
			if r.Chance(0.35) {
				p.Tombstone = []int{1, 3, 2}[r.Intn(3)] // a reference that has been removed (and put back) is still a reference
			}
			if err := send(vlib.NodeSubj(from.ID), data.Points{p}); err != nil {
				c.Violate("store:legal-write-refused", err.Error(), nil)
				return
			}
			from.Points = append(from.Points, p)
		}
		mirrors := 0
		for k := 0; k < 2 && len(live) > 3; k++ {
			a, b := live[1+r.Intn(len(live)-1)], live[r.Intn(len(live))]
			// mirror a under b when that keeps the tree acyclic: b must not be a or below a
			below := map[string]bool{}
			var mark func(x string)
			mark = func(x string) {
				below[x] = true
				for _, id := range order {
					for _, p := range nodes[id].Parents {
						if p == x && !below[id] {
							mark(id)
						}
					}
				}
			}
			mark(a)
			already := false
			for _, p := range nodes[a].Parents {
				if p == b {
					already = true
				}
			}
			if below[b] || already {
				continue
			}
			// is b itself exported (reachable through live edges)? only then the mirror is part of the tree
			if err := send(vlib.EdgeSubj(a, b), data.Points{{Type: data.PointTypeTombstone, Time: now(), Value: 0}, {Type: data.PointTypeNodeType, Text: nodes[a].Type}}); err != nil {
				c.Violate("store:legal-write-refused", err.Error(), nil)
				return
			}
			nodes[a].Parents = append(nodes[a].Parents, b)
			mirrors++
		}

		// ---- export
		y, err := client.ExportNodes(nc, top.ID)
		c.Eval(1)
		clsT, clsV := keysOf(usedT), keysOf(usedV)
		wit := map[string]any{"case": i, "seed": c.Seed, "target": targetKind, "text_classes": clsT, "value_classes": clsV, "yaml": string(y)}
		classSig := func() string {
			// name the (single) non-plain class when the case is focused
			var t, v []string
			for _, x := range clsT {
				if x != "plain" {
					t = append(t, x)
				}
			}
			for _, x := range clsV {
				if x != "int" {
					v = append(v, x)
				}
			}
			if focused {
				return fmt.Sprintf("text=%s;value=%s", strings.Join(t, "+"), strings.Join(v, "+"))
			}
			return "mixed"
		}
		if err != nil {
			c.Violate("export:failed:"+classSig(), "ExportNodes failed: "+err.Error(), wit)
			return
		}
		if len(y) > 20000 {
			wit["yaml"] = string(y[:20000]) + "…"
		}
		if viaCLI {
			// the same export through the command line tool: byte for byte what the library returns
			out, se, err := runSiot(nil, "export", "-nodeID", top.ID, "-natsServer", src.Opts.NatsServer)
			if err != nil && siotErr != nil {
				c.Inconclusive("siot tool: " + siotErr.Error())
				return
			}
			if err != nil {
				c.Violate("export:failed:cli", fmt.Sprintf("siot export failed: %v: %.300s", err, se), wit)
				return
			}
			if !bytes.Equal(out, y) {
				c.Violate("export:cli-differs-from-library", fmt.Sprintf("siot export printed %d bytes, ExportNodes returned %d bytes for the same node", len(out), len(y)), wit)
				return
			}
			c.Count("exports_through_the_command_line_tool", 1)
		}
		// what ExportNodes returned belongs to the caller: it must not change when further exports are
		// made (of sub-trees of this tree, also from the other workers of this run) before it is used
		held := append([]byte{}, y...)
		for q := 0; q < 3 && q < len(order); q++ {
			_, _ = client.ExportNodes(nc, order[r.Intn(len(order))])
		}
		if !bytes.Equal(held, y) {
			c.Violate("export:result-changed-after-later-export", "the bytes returned by ExportNodes changed while the caller was holding them and made other exports", wit)
			return
		}
		// ---- import
		tnc := nc
		tin := src
		var parent string
		preserve := targetKind == "other-instance-preserve" || targetKind == "restore-deleted"
		switch targetKind {
		case "restore-deleted":
			// the exported node is deleted where it stands and the export is imported over it with its ids
			// preserved: the subtree is back, alive, as it was
			parent = grp
			if err := send(vlib.EdgeSubj(top.ID, grp), data.Points{{Type: data.PointTypeTombstone, Time: now(), Value: 1}}); err != nil {
				c.Violate("store:legal-write-refused", err.Error(), nil)
				return
			}
		case "same-parent":
			parent = grp
		case "other-parent":
			parent = fmt.Sprintf("grpB%d", i)
			if err := send(vlib.EdgeSubj(parent, src.RootID), data.Points{{Type: data.PointTypeNodeType, Text: "group"}, {Type: data.PointTypeTombstone, Time: now(), Value: 0}}); err != nil {
				c.Violate("store:legal-write-refused", err.Error(), nil)
				return
			}
		default:
			dst, err := vlib.StartInstance(vlib.InstCfg{ID: fmt.Sprintf("c15d-%d", i)})
			if err != nil {
				c.Inconclusive(err.Error())
				return
			}
			defer dst.Stop()
			tin = dst
			tnc, err = dst.Connect()
			if err != nil {
				c.Inconclusive(err.Error())
				return
			}
			parent = grp
			if !preserve && r.Chance(0.5) {
				parent = dst.RootID
			} else {
				if e, err := vlib.SendAck(tnc, vlib.EdgeSubj(grp, dst.RootID), data.Points{{Type: data.PointTypeNodeType, Text: "group"}, {Type: data.PointTypeTombstone, Time: now(), Value: 0}}); err != nil || e != "" {
					c.Violate("store:legal-write-refused", fmt.Sprint(err, e), nil)
					return
				}
			}
		}
		beforeKids, err := client.GetNodes(tnc, parent, "all", "", true)
		if err != nil {
			c.Inconclusive(err.Error())
			return
		}
		had := map[string]bool{}
		for _, k := range beforeKids {
			had[k.ID] = true
		}
		if viaCLI {
			args := []string{"import", "-parentID", parent, "-natsServer", tin.Opts.NatsServer}
			if preserve {
				args = append(args, "-preserveIDs")
			}
			_, se, err := runSiot(y, args...)
			if err != nil {
				c.Violate("import:failed:cli", fmt.Sprintf("siot import failed on what the export produced: %v: %.300s", err, se), wit)
				return
			}
			wit["imported_through"] = "siot import"
			c.Count("imports_through_the_command_line_tool", 1)
		} else {
			err = client.ImportNodes(tnc, parent, y, "importer", preserve)
			if err != nil {
				c.Violate("import:failed:"+classSig(), "ImportNodes failed on what ExportNodes produced: "+err.Error(), wit)
				return
			}
		}
		afterKids, err := client.GetNodes(tnc, parent, "all", "", true)
		if err != nil {
			c.Inconclusive(err.Error())
			return
		}
		newTop := ""
		for _, k := range afterKids {
			if !had[k.ID] {
				if newTop != "" {
					c.Violate("import:more-than-one-top-node", "import created more than one node under the target parent", wit)
					return
				}
				newTop = k.ID
			}
		}
		if preserve {
			newTop = top.ID
		}
		if targetKind == "restore-deleted" {
			live, err := client.GetNodes(tnc, parent, top.ID, "", false)
			if err != nil || len(live) != 1 {
				c.Violate("import:deleted-node-not-restored", fmt.Sprintf("the export was imported (ids preserved) over the deleted original: import reported success, %d live nodes %s below %s afterwards (%v)", len(live), top.ID, parent, err), wit)
				return
			}
		}
		if newTop == "" {
			c.Violate("import:no-top-node", "no new node under the target parent after import", wit)
			return
		}
		verifyCopy := func(newTop, parent string) bool {
			// ---- compare by marker
			type got struct {
				ne   data.NodeEdge
				kids []data.NodeEdge
			}
			idMap := map[string]string{} // old -> new
			newSeen := map[string]string{}
			refMap := map[string]string{}
			var problems []string
			bad := func(sig, f string, a ...any) { problems = append(problems, sig+"|"+fmt.Sprintf(f, a...)) }
			visited := 0
			var cmp func(oldID, oldParent, newID, newParent string, isTop bool)
			cmp = func(oldID, oldParent, newID, newParent string, isTop bool) {
				if len(problems) > 0 {
					return
				}
				visited++
				o := nodes[oldID]
				ns, err := client.GetNodes(tnc, newParent, newID, "", true)
				if err != nil || len(ns) != 1 {
					bad("import:node-unreadable", "imported node %s under %s: %v (%d)", newID, newParent, err, len(ns))
					return
				}
				n := ns[0]
				if prev, ok := idMap[oldID]; ok && prev != newID {
					bad("import:id-map-inconsistent", "node %s appears as %s and as %s", oldID, prev, newID)
					return
				}
				if prevOld, ok := newSeen[newID]; ok && prevOld != oldID {
					bad("import:id-map-not-injective", "new id %s stands for %s and %s", newID, prevOld, oldID)
					return
				}
				idMap[oldID], newSeen[newID] = newID, oldID
				if preserve && newID != oldID {
					bad("import:id-not-preserved", "%s became %s with preserveIDs", oldID, newID)
					return
				}
				if !preserve && newID == oldID {
					bad("import:id-not-replaced", "%s kept its id without preserveIDs", oldID)
					return
				}
				if n.Type != o.Type {
					bad("import:node-type-changed", "%s: type %q became %q", oldID, o.Type, n.Type)
					return
				}
				// points
				want := map[string]data.Point{}
				for _, p := range o.Points {
					want[c15Ident(p)] = p
				}
				gotP := map[string]data.Point{}
				for _, p := range n.Points {
					gotP[c15Ident(p)] = p
				}
				for id, wp := range want {
					gp, ok := gotP[id]
					if !ok {
						bad("import:point-lost", "%s: point %s missing after import", oldID, c15PointKey(wp))
						return
					}
					wText := wp.Text
					if wp.Type == data.PointTypeDescription && isTop {
						wText += " (import)"
					}
					if wp.Type == data.PointTypeNodeID && wp.Text != "" {
						if preserve {
							if gp.Text != wp.Text {
								bad("import:reference-changed", "%s: nodeID reference %q became %q with preserveIDs", oldID, wp.Text, gp.Text)
								return
							}
						} else {
							if prev, ok := refMap[wp.Text]; ok && prev != gp.Text {
								bad("import:reference-map-inconsistent", "reference to %s became %s and %s", wp.Text, prev, gp.Text)
								return
							}
							refMap[wp.Text] = gp.Text
						}
						wText = gp.Text
					}
					if gp.Text != wText {
						sig := "import:text-changed"
						if wp.Type == data.PointTypeDescription && !isTop && gp.Text == wp.Text+" (import)" {
							sig = "import:marker-on-non-top-description"
						}
						bad(sig, "%s: point %q/%q text %q became %q", oldID, wp.Type, wp.Key, wText, gp.Text)
						return
					}
					if !(gp.Value == wp.Value) {
						bad("import:value-changed", "%s: point %q/%q value %v became %v", oldID, wp.Type, wp.Key, wp.Value, gp.Value)
						return
					}
					if gp.Tombstone != wp.Tombstone {
						bad("import:tombstone-changed", "%s: point %q/%q tombstone %d became %d", oldID, wp.Type, wp.Key, wp.Tombstone, gp.Tombstone)
						return
					}
				}
				for id, gp := range gotP {
					if _, ok := want[id]; !ok {
						bad("import:phantom-point", "%s: point %s appeared", oldID, c15PointKey(gp))
						return
					}
				}
				// edge points (tombstone 0 == absent)
				if !isTop {
					se, err := client.GetNodes(nc, oldParent, oldID, "", true)
					if err == nil && len(se) == 1 {
						we, ge := map[string]data.Point{}, map[string]data.Point{}
						for _, p := range se[0].EdgePoints {
							if !(p.Type == data.PointTypeTombstone && p.Value == 0) {
								we[c15Ident(p)] = p
							}
						}
						for _, p := range n.EdgePoints {
							if !(p.Type == data.PointTypeTombstone && p.Value == 0) {
								ge[c15Ident(p)] = p
							}
						}
						for id, wp := range we {
							gp, ok := ge[id]
							if !ok || gp.Text != wp.Text || !(gp.Value == wp.Value) || gp.Tombstone != wp.Tombstone {
								bad("import:edge-point-changed", "%s: edge point %s became %s (present=%v)", oldID, c15PointKey(wp), c15PointKey(gp), ok)
								return
							}
						}
						for id, gp := range ge {
							if _, ok := we[id]; !ok {
								bad("import:phantom-edge-point", "%s: edge point %s appeared", oldID, c15PointKey(gp))
								return
							}
						}
					}
				}
				// children: live children of the source vs all children of the import
				var wantKids []string
				for _, id := range order {
					for _, p := range nodes[id].Parents {
						if p == oldID && !(deleted[id] && nodes[id].Parents[0] == p) {
							wantKids = append(wantKids, id)
						}
					}
				}
				kids, err := client.GetNodes(tnc, newID, "all", "", true)
				if err != nil {
					bad("import:node-unreadable", "children of %s: %v", newID, err)
					return
				}
				byMarker := map[string]data.NodeEdge{}
				for _, k := range kids {
					m, _ := k.Points.Text("vmarker", "")
					if _, dup := byMarker[m]; dup {
						bad("import:child-duplicated", "%s: two imported children carry marker %q", oldID, m)
						return
					}
					byMarker[m] = k
				}
				if preserve && targetKind == "other-instance-preserve" || !preserve {
					if len(kids) != len(wantKids) {
						var ms []string
						for m := range byMarker {
							ms = append(ms, m)
						}
						sort.Strings(ms)
						for _, k := range kids {
							if deleted[newSeenOld(newSeen, k.ID, byMarker, nodes)] {
								bad("import:deleted-node-exported", "%s: a deleted child was exported/imported (%v)", oldID, ms)
								return
							}
						}
						bad("import:shape-changed", "%s: %d live children, import has %d (%v)", oldID, len(wantKids), len(kids), ms)
						return
					}
				}
				for _, kid := range wantKids {
					k, ok := byMarker[nodes[kid].Marker]
					if !ok {
						bad("import:child-lost", "%s: child %s missing after import", oldID, kid)
						return
					}
					cmp(kid, oldID, k.ID, newID, false)
				}
			}
			cmp(top.ID, grp, newTop, parent, true)
			c.Count("nodes_compared", int64(visited))
			if len(problems) > 0 {
				parts := strings.SplitN(problems[0], "|", 2)
				sig := parts[0]
				if sig == "import:text-changed" || sig == "import:value-changed" || sig == "import:point-lost" {
					sig += ":" + classSig()
				}
				wit["mirrors"] = mirrors
				c.Violate(sig, parts[1], wit)
				return false
			}
			if !preserve {
				// references inside the tree must follow the id map; outside ones must be fresh and distinct
				for old, nw := range refMap {
					if mapped, ok := idMap[old]; ok && mapped != nw {
						c.Violate("import:reference-not-following-id-map", fmt.Sprintf("reference to %s became %s but the node itself became %s", old, nw, mapped), wit)
						return false
					}
				}
			}
			return true
		}
		if !verifyCopy(newTop, parent) {
			return
		}
		// ---- the same export, kept while other exports happen, imported a second time next to the first
		if !preserve && i%2 == 0 {
			for _, other := range order[:min(len(order), 3)] {
				_, _ = client.ExportNodes(nc, other)
			}
			parent2 := fmt.Sprintf("grpC%d", i)
			if e, err := vlib.SendAck(tnc, vlib.EdgeSubj(parent2, parent), data.Points{{Type: data.PointTypeNodeType, Text: "group"}, {Type: data.PointTypeTombstone, Time: now(), Value: 0}}); err != nil || e != "" {
				c.Violate("store:legal-write-refused", fmt.Sprint(err, e), nil)
				return
			}
			if err := client.ImportNodes(tnc, parent2, y, "importer", false); err != nil {
				c.Violate("import:failed:"+classSig(), "a second ImportNodes of the same export failed: "+err.Error(), wit)
				return
			}
			kids2, err := client.GetNodes(tnc, parent2, "all", "", true)
			if err != nil || len(kids2) != 1 {
				c.Violate("import:no-top-node", fmt.Sprintf("second import: %d nodes under the fresh parent (%v)", len(kids2), err), wit)
				return
			}
			wit["second_import"] = true
			if !verifyCopy(kids2[0].ID, parent2) {
				return
			}
			c.Count("second_imports_compared", 1)
		}
		c.Distinct(fmt.Sprintf("%s preserve=%v focused=%v %s mirrors=%d deleted=%d", targetKind, preserve, focused, classSig(), mirrors, len(deleted)))
		if i < 2 {
			s := string(y)
			if len(s) > 1500 {
				s = s[:1500] + "…"
			}
			c.Sample(map[string]any{"target": targetKind, "nodes": len(order), "yaml": s})
		}
	})
	if siotBin != "" {
		_ = os.RemoveAll(filepath.Dir(siotBin)) // the tool built for this run
	}
	c.Require("nodes_compared", 50)
	return c.Finish()
}

func c15Ident(p data.Point) string {
	k := p.Key
	if k == "" {
		k = "0"
	}
	return p.Type + "\x00" + k
}

// newSeenOld maps an imported child back to its source id via its marker.
func newSeenOld(_ map[string]string, newID string, byMarker map[string]data.NodeEdge, nodes map[string]*c15Node) string {
	for m, k := range byMarker {
		if k.ID == newID {
			for id, n := range nodes {
				if n.Marker == m {
					return id
				}
			}
		}
	}
	return ""
}

var _ = nats.ErrTimeout
