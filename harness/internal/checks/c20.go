package checks

import (
	"encoding/json"
	"fmt"
	"math/rand"
	"net/http"
	"os"
	"path/filepath"
	"regexp"
	"runtime"
	"sort"
	"strings"
	"sync"
	"sync/atomic"
	"time"

	"github.com/anishathalye/porcupine"
	"github.com/nats-io/nats.go"
	"github.com/simpleiot/simpleiot/client"
	"github.com/simpleiot/simpleiot/data"
	"github.com/simpleiot/simpleiot/store"

	"verifharness/internal/vlib"
)

func init() { Registry["C20"] = runC20 }

type regIn struct {
	Write bool
	Ts    int64
}

// maxRegister is the sequential model of one point identity: the register
// holds the greatest timestamp written; a read returns it.
var maxRegister = porcupine.Model{
	Init: func() interface{} { return int64(0) },
	Step: func(state, input, output interface{}) (bool, interface{}) {
		st := state.(int64)
		in := input.(regIn)
		if in.Write {
			if in.Ts > st {
				return true, in.Ts
			}
			return true, st
		}
		return output.(int64) == st, st
	},
}

const c20Token = "c20-token"

type c20Op struct {
	Part   string
	Client int
	In     regIn
	Out    int64
	Call   int64
	Ret    int64 // 0 = still open
	Kind   string
	Lib    bool // sent through client.SendNodePoints (1 s library deadline)
}

// raceReports parses the race detector's log files (GORACE log_path) of this process.
func raceReports() (blocks []string, err error) {
	g := os.Getenv("GORACE")
	m := regexp.MustCompile(`log_path=(\S+)`).FindStringSubmatch(g)
	if m == nil {
		return nil, nil
	}
	files, _ := filepath.Glob(m[1] + ".*")
	for _, f := range files {
		b, err := os.ReadFile(f)
		if err != nil {
			continue
		}
		for _, blk := range strings.Split(string(b), "==================") {
			if strings.Contains(blk, "WARNING: DATA RACE") {
				blocks = append(blocks, blk)
			}
		}
	}
	return blocks, nil
}

// raceSignature: the pair of accessing functions of the two racing stacks (first frame that is not
// runtime-internal, line numbers stripped) and whether one of them is simpleiot code.
func raceSignature(blk string) (sig string, inSiot bool) {
	frame := regexp.MustCompile(`(?m)^  (\S+)\(\)$`)
	var tops []string
	stacks := regexp.MustCompile(`(?m)^(?:Previous )?(?:[Rr]ead|[Ww]rite|Atomic [a-z]+) at .* by .*$`).Split(blk, -1)
	for _, st := range stacks[1:] {
		st = strings.SplitN(st, "\n\n", 2)[0]
		top := "(unknown)"
		for _, m := range frame.FindAllStringSubmatch(st, -1) {
			if strings.HasPrefix(m[1], "runtime.") || strings.HasPrefix(m[1], "sync.") || strings.HasPrefix(m[1], "sync/atomic.") || strings.HasPrefix(m[1], "internal/") {
				continue
			}
			top = m[1]
			break
		}
		if strings.Contains(top, "simpleiot/simpleiot") {
			inSiot = true
		}
		tops = append(tops, top)
	}
	sort.Strings(tops)
	return strings.Join(tops, " <-> "), inSiot
}

func runC20(tier string, _ []string) int {
	c := vlib.NewCtx("C20", tier, "exploration")
	vlib.SetPortBlock(20)
	raceBuild := strings.Contains(os.Getenv("GORACE"), "log_path")
	c.SetRule("per history (race-detector build): a fresh instance, 8-32 bus clients on their own connections issue ~150-400 operations against 3 nodes (a chain three deep in every other history, so that one write moves three ancestor hashes) x 2 types x 2 keys: acknowledged node-point and edge-point writes with unique (timestamp, value), node reads - directly and as entries of the parent's child listing - (split into one read per identity), reads with an undecodable payload, edge writes that must be refused (deleting an edge the node never had), admin.storeVerify (every fourth history carries 120 ballast nodes and two connections that only ask for verification (admin.storeVerify), so that Stop meets verifications in flight; at rest after the load a burst of 260 pipelined 40 KiB requests on one connection must be answered one by one, and admin.storeVerify and admin.storeMaint are asked for at the same time); a fifth of the clients write through the library's SendNodePoints (1 s deadline), another fifth read and write through the HTTP API (so api handlers run concurrently with bus handlers); ~3% of the operations create a new leaf node below one of the nodes while its ancestors' hashes are moving, ~1% give one of the nodes being written a second placement (mirror); random 0-2 ms delays are injected at the store.afterNodeWrite / store.afterEdgeWrite hook sites (between database commit and rebroadcast/reply). One more instance is kept for 66 s (so that its once-a-minute jobs have run) and must then acknowledge writes, serve reads and hold consistent hashes as before. Every call is recorded at the client boundary (call time before sending, return time after the reply, one monotonic clock); an unanswered operation stays open to the end of the history. Monitors: (1) porcupine linearizability of each identity's history against a max-timestamp register, (2) every request answered, (3) final content = newest accepted write per identity (C01) with consistent hashes (C03), (4) race detector reports involving simpleiot code, (5) Server.Stop during or after load: Run returns and the same file opens again with the acknowledged writes. distinct = (clients, stop mode, fingerprint class: overlapping pairs bucket, concurrent read/write pairs bucket)")
	c.Assume("schedules are sampled, not enumerated; a clean race-detector run means no report on the executed paths")
	if !raceBuild {
		c.Assume("this run was NOT built with -race")
	}
	nHist := c.N(20, 300)
	wd := c.NewWatchdog()
	dr := rand.New(rand.NewSource(c.Seed))
	var dmu sync.Mutex
	store.VerifSetHook(func(site string, _ ...any) {
		if site == "store.afterNodeWrite" || site == "store.afterEdgeWrite" {
			dmu.Lock()
			d := time.Duration(dr.Intn(2000)) * time.Microsecond
			skip := dr.Intn(3) == 0
			dmu.Unlock()
			if !skip {
				time.Sleep(d)
			}
		}
	})
	t0 := time.Now()
	mono := func() int64 { return int64(time.Since(t0)) + 1 }
	var tsCounter int64
	// ---- an instance that has been up for more than a minute (its once-a-minute jobs have run: the
	// store reports its cycle metrics through its own bus): requests are answered as they were before
	aged := make(chan string, 1)
	go func() {
		in, err := vlib.StartInstance(vlib.InstCfg{ID: "c20-aged"})
		if err != nil {
			c.Inconclusive("aged instance: " + err.Error())
			aged <- ""
			return
		}
		defer in.Stop()
		nc, err := in.Connect()
		if err != nil {
			aged <- ""
			return
		}
		node := "aged-n1"
		send := func(k int) (string, error) {
			return vlib.SendAck(nc, vlib.NodeSubj(node), data.Points{{Type: "v", Key: fmt.Sprint(k % 3), Time: time.Unix(0, 1700000000e9+int64(k)), Value: float64(k), Origin: "aged"}})
		}
		if e, err := vlib.SendAck(nc, vlib.EdgeSubj(node, in.RootID), data.Points{{Type: data.PointTypeTombstone, Time: time.Unix(0, 1)}, {Type: data.PointTypeNodeType, Text: "variable"}}); err != nil || e != "" {
			aged <- ""
			return
		}
		k := 0
		for ; k < 20; k++ { // while young
			if e, err := send(k); err != nil || e != "" {
				aged <- fmt.Sprintf("write %d on a young instance: %v %s", k, err, e)
				return
			}
		}
		for in.Age() < 66*time.Second {
			time.Sleep(500 * time.Millisecond)
		}
		for round := 0; round < 3; round++ {
			for q := 0; q < 15; q++ {
				k++
				if e, err := send(k); err != nil || e != "" {
					aged <- fmt.Sprintf("write %d, %.0f s after the instance started, got no acknowledgement: %v %s (the first 20 writes, on the young instance, were acknowledged)", k, in.Age().Seconds(), err, e)
					return
				}
			}
			ns, err := client.GetNodes(nc, in.RootID, node, "", false)
			if err != nil || len(ns) != 1 {
				aged <- fmt.Sprintf("read %.0f s after the instance started: %v (%d nodes)", in.Age().Seconds(), err, len(ns))
				return
			}
			if p, ok := ns[0].Points.Find("v", fmt.Sprint(k%3)); !ok || p.Value != float64(k) {
				aged <- fmt.Sprintf("read %.0f s after the instance started does not show the last acknowledged write %d (found %v %v)", in.Age().Seconds(), k, ok, p.Value)
				return
			}
			time.Sleep(2 * time.Second)
		}
		if bad, _, err := hashCheck(nc); err == nil && bad != "" {
			aged <- "hashes on the aged instance: " + bad
			return
		}
		c.Count("aged_instance_checked", 1)
		aged <- ""
	}()
	vlib.Parallel(nHist, 4, func(i int) {
		r := vlib.NewR(c.Seed, "c20", i)
		in, err := vlib.StartInstance(vlib.InstCfg{ID: fmt.Sprintf("c20-%d", i), AuthToken: c20Token})
		if err != nil {
			c.Inconclusive(err.Error())
			return
		}
		file := in.Opts.StoreFile
		defer in.Cleanup()
		stopped := false
		defer func() {
			if !stopped {
				in.StopKeepFiles()
			}
		}()
		setup, err := in.Connect()
		if err != nil {
			c.Inconclusive(err.Error())
			return
		}
		nodes := []string{fmt.Sprintf("h%d-n1", i), fmt.Sprintf("h%d-n2", i), fmt.Sprintf("h%d-n3", i)}
		// h-n1 under the root, h-n2 under h-n1, h-n3 under h-n2: a write at depth moves three ancestor hashes
		parentOf := map[string]string{nodes[0]: in.RootID, nodes[1]: nodes[0], nodes[2]: nodes[1]}
		if i%2 == 1 {
			parentOf[nodes[1]], parentOf[nodes[2]] = in.RootID, in.RootID // flat: all three below the root
		}
		httpBase := fmt.Sprintf("http://127.0.0.1:%d/v1/nodes/", in.Ports[1])
		httpCl := &http.Client{Timeout: 30 * time.Second}
		for _, n := range nodes {
			if e, err := vlib.SendAck(setup, vlib.EdgeSubj(n, parentOf[n]), data.Points{{Type: data.PointTypeTombstone, Time: time.Unix(0, 1)}, {Type: data.PointTypeNodeType, Text: "variable"}}); err != nil || e != "" {
				c.Violate("store:legal-write-refused", fmt.Sprint(err, e), nil)
				return
			}
		}
		heavy := i%4 == 3
		if heavy {
			// ballast so that a verification request takes a while: 120 leaves below h-n1
			for b := 0; b < 120; b++ {
				id := fmt.Sprintf("h%d-b%d", i, b)
				if e, err := vlib.SendAck(setup, vlib.EdgeSubj(id, nodes[0]), data.Points{{Type: data.PointTypeTombstone, Time: time.Unix(0, 1)}, {Type: data.PointTypeNodeType, Text: "variable"}, {Type: "role", Time: time.Unix(0, 2), Text: "ballast"}}); err != nil || e != "" {
					c.Violate("store:legal-write-refused", fmt.Sprint(err, e), nil)
					return
				}
				// (a small point that is newer than what the burst below sends: the burst's large points are
				// answered but not kept, so that nodes and listings stay small enough to be read in one message)
				if e, err := vlib.SendAck(setup, vlib.NodeSubj(id), data.Points{{Type: "blob", Time: time.Unix(0, 1900000000e9), Value: 1}}); err != nil || e != "" {
					c.Violate("store:legal-write-refused", fmt.Sprint(err, e), nil)
					return
				}
			}
		}
		nClients := 8 + r.Intn(25)
		opsPer := (150 + r.Intn(250)) / nClients
		stopMode := []string{"after-load", "after-load", "during-load"}[r.Intn(3)]
		var mu sync.Mutex
		var hist []*c20Op
		sent := map[string]map[int64]float64{} // partition -> ts -> value
		created := map[string]float64{}        // parent/id of acknowledged creations -> value of its point
		mirrored := map[string]bool{}
		record := func(o *c20Op) {
			mu.Lock()
			hist = append(hist, o)
			mu.Unlock()
		}
		var wg sync.WaitGroup
		stopAt := int64(-1)
		if stopMode == "during-load" {
			stopAt = int64(nClients*opsPer/2 + r.Intn(nClients*opsPer/2+1))
		}
		var opCount int64
		stopCh := make(chan struct{})
		var stopOnce sync.Once
		for cl := 0; cl < nClients; cl++ {
			nc, err := in.Connect()
			if err != nil {
				c.Inconclusive(err.Error())
				return
			}
			cr := rand.New(rand.NewSource(r.Int63()))
			libSender := cl%5 == 4
			httpClient := cl%5 == 3
			wg.Add(1)
			go func(cl int, nc *nats.Conn) {
				defer wg.Done()
				for k := 0; k < opsPer; k++ {
					select {
					case <-stopCh:
						if stopMode == "during-load" {
							return // the instance is being stopped: in-flight operations stay open, no new ones
						}
					default:
					}
					if n := atomic.AddInt64(&opCount, 1); n == stopAt {
						stopOnce.Do(func() { close(stopCh) })
					}
					node := nodes[cr.Intn(len(nodes))]
					typ := []string{"a", "b"}[cr.Intn(2)]
					key := []string{"", "1"}[cr.Intn(2)]
					nk := key
					if nk == "" {
						nk = "0"
					}
					switch roll := cr.Intn(100); {
					case roll == 94:
						// a read request whose payload does not decode: answered with an error, and nothing
						// of it may linger (a later Stop still has to terminate)
						junk := make([]byte, 1+cr.Intn(12))
						cr.Read(junk)
						if m, err := nc.Request("nodes."+parentOf[node]+"."+node, junk, vlib.ReqTimeout); err == nil && len(m.Data) > 0 {
							c.Count("reads_with_undecodable_payload_answered", 1)
						}
					case roll == 93:
						// a request that has to be refused (an edge the node never had is deleted: there is no such
						// edge and the request names no node type); it is answered with an error, and nobody else's
						// writes are the worse for it
						e, err := vlib.SendAck(nc, vlib.EdgeSubj(node, fmt.Sprintf("nowhere-%d-%d", cl, k)), data.Points{{Type: data.PointTypeTombstone, Time: time.Unix(0, 1700000000e9+int64(k)), Value: 1, Origin: fmt.Sprint("c", cl)}})
						if err == nil && e == "" {
							record(&c20Op{Part: "refusal", Client: cl, Kind: "verify-error:an edge write without node type for an edge that does not exist was acknowledged", Call: mono()})
						} else if err == nil {
							c.Count("refusals_under_load", 1)
						}
					case roll < 45 || (roll < 60): // node write / edge write
						edge := roll >= 45
						// one write in ten is made twice in a row with the same value, text and origin and a
						// newer timestamp: the second one is a write like any other (it moves the timestamp)
						nrep := 1
						if cr.Intn(10) == 0 {
							nrep = 2
						}
						for rep := 0; rep < nrep; rep++ {
							ts := atomic.AddInt64(&tsCounter, 1)*1000 + 1700000000e9
							val := float64(ts % 1e9)
							if nrep == 2 {
								val = 7
								c.Count("writes_repeating_the_stored_content", 1)
							}
							part := fmt.Sprintf("n|%s|%s|%s", node, typ, nk)
							subj := vlib.NodeSubj(node)
							if edge {
								part = fmt.Sprintf("e|%s|%s|%s", node, typ, nk)
								subj = vlib.EdgeSubj(node, parentOf[node])
							}
							mu.Lock()
							if sent[part] == nil {
								sent[part] = map[int64]float64{}
							}
							sent[part][ts] = val
							mu.Unlock()
							o := &c20Op{Part: part, Client: cl, In: regIn{true, ts}, Kind: "write", Call: mono()}
							record(o)
							pts := data.Points{{Type: typ, Key: key, Time: time.Unix(0, ts), Value: val, Origin: fmt.Sprint("c", cl)}}
							var e string
							var err error
							if httpClient && !edge {
								// through the HTTP API (which itself uses the library's 1 s deadline towards the store)
								mu.Lock()
								o.Lib = true
								mu.Unlock()
								body, _ := json.Marshal(pts)
								var res httpResp
								res, err = doHTTP(httpCl, "POST", httpBase+node+"/points", c20Token, true, body, "application/json")
								if err == nil && res.Status != 200 {
									err = fmt.Errorf("http %d %s", res.Status, res.Body)
								}
								if err == nil {
									c.Count("http_writes_acknowledged", 1)
								}
							} else if libSender && !edge {
								// the library's own 1 s acknowledgement deadline is wall-clock: its expiry on a
								// loaded machine is not "never answered"; the write stays open for monitor (1)
								mu.Lock()
								o.Lib = true
								mu.Unlock()
								err = client.SendNodePoints(nc, node, pts, true)
							} else {
								e, err = vlib.SendAck(nc, subj, pts)
							}
							if err == nil && e == "" {
								mu.Lock()
								o.Ret = mono()
								mu.Unlock()
							} else if err == nil {
								mu.Lock()
								o.Kind = "write-refused:" + e
								mu.Unlock()
							}
							if err != nil {
								break
							}
						}
					case roll < 95:
						call := mono()
						var ns []data.NodeEdge
						var err error
						if httpClient {
							var res httpResp
							res, err = doHTTP(httpCl, "GET", httpBase+node, c20Token, true, []byte(parentOf[node]), "")
							if err == nil && res.Status != 200 {
								err = fmt.Errorf("http %d %s", res.Status, res.Body)
							}
							if err == nil {
								err = json.Unmarshal([]byte(res.Body), &ns)
							}
							if err == nil {
								c.Count("http_reads", 1)
							}
						} else if cr.Intn(10) < 3 {
							// the node as an entry of its parent's child listing
							var all []data.NodeEdge
							all, err = client.GetNodes(nc, parentOf[node], "all", "", false)
							for _, x := range all {
								if x.ID == node {
									ns = append(ns, x)
								}
							}
							if err == nil {
								c.Count("reads_through_child_listings", 1)
							}
						} else {
							ns, err = client.GetNodes(nc, parentOf[node], node, "", false)
						}
						ret := mono()
						if err != nil || len(ns) != 1 {
							mu.Lock()
							hist = append(hist, &c20Op{Part: "read-failed", Client: cl, Kind: fmt.Sprint("read-failed: ", err, len(ns)), Call: call})
							mu.Unlock()
							continue
						}
						for _, t := range []string{"a", "b"} {
							for _, kk := range []string{"0", "1"} {
								var got, gotE int64
								if p, ok := ns[0].Points.Find(t, kk); ok {
									got = p.Time.UnixNano()
								}
								if p, ok := ns[0].EdgePoints.Find(t, kk); ok {
									gotE = p.Time.UnixNano()
								}
								record(&c20Op{Part: fmt.Sprintf("n|%s|%s|%s", node, t, kk), Client: cl, In: regIn{false, 0}, Out: got, Call: call, Ret: ret, Kind: "read"})
								record(&c20Op{Part: fmt.Sprintf("e|%s|%s|%s", node, t, kk), Client: cl, In: regIn{false, 0}, Out: gotE, Call: call, Ret: ret, Kind: "read"})
							}
						}
					case roll < 96:
						// a second placement for a node that other clients are writing to right now (mirror
						// below the root or h-n1): the new edge's hash starts from the node's current content
						x := nodes[1+cr.Intn(2)]
						par := []string{in.RootID, nodes[0]}[cr.Intn(2)]
						mu.Lock()
						dup := par == parentOf[x] || mirrored[par+"/"+x]
						mirrored[par+"/"+x] = true
						mu.Unlock()
						if dup {
							continue
						}
						e, err := vlib.SendAck(nc, vlib.EdgeSubj(x, par), data.Points{{Type: data.PointTypeTombstone, Time: time.Unix(0, 1700000000e9)}, {Type: data.PointTypeNodeType, Text: "variable"}})
						if err == nil && e != "" {
							record(&c20Op{Part: "mirror", Client: cl, Kind: "write-refused:mirror " + e, Call: mono()})
							continue
						}
						if err == nil {
							c.Count("mirrors_made_under_load", 1)
						}
					case roll < 98:
						// create a leaf below one of the nodes (edge first, then a point), concurrently with
						// the writes that move the same ancestors' hashes
						id := fmt.Sprintf("h%d-x%d-%d", i, cl, k)
						par := node
						e, err := vlib.SendAck(nc, vlib.EdgeSubj(id, par), data.Points{{Type: data.PointTypeTombstone, Time: time.Unix(0, 1700000000e9)}, {Type: data.PointTypeNodeType, Text: "variable"}})
						if err == nil && e != "" {
							record(&c20Op{Part: "create", Client: cl, Kind: "write-refused:create " + e, Call: mono()})
							continue
						}
						acked := err == nil
						e, err = vlib.SendAck(nc, vlib.NodeSubj(id), data.Points{{Type: "value", Time: time.Unix(0, 1700000000e9+int64(k)), Value: float64(cl*1000 + k), Origin: fmt.Sprint("c", cl)}})
						if err == nil && e != "" {
							record(&c20Op{Part: "create", Client: cl, Kind: "write-refused:create-point " + e, Call: mono()})
							continue
						}
						if acked && err == nil {
							mu.Lock()
							created[par+"/"+id] = float64(cl*1000 + k)
							mu.Unlock()
						}
					default:
						call := mono()
						s, err := adminReq(nc, "admin.storeVerify")
						o := &c20Op{Part: "verify", Client: cl, Kind: "verify", Call: call}
						if err == nil {
							o.Ret = mono()
							if s != "" {
								o.Kind = "verify-error:" + s
							}
						}
						mu.Lock()
						hist = append(hist, o)
						mu.Unlock()
					}
				}
			}(cl, nc)
		}
		if heavy {
			// two more connections do nothing but ask for verification, so that a Stop (or the end of the
			// load) is likely to meet one in flight
			for v := 0; v < 2; v++ {
				vnc, err := in.Connect()
				if err != nil {
					c.Inconclusive(err.Error())
					return
				}
				wg.Add(1)
				go func(cl int, nc *nats.Conn) {
					defer wg.Done()
					for k := 0; k < 40; k++ {
						select {
						case <-stopCh:
							if stopMode == "during-load" && k > 3 {
								return
							}
						default:
						}
						call := mono()
						subj := "admin.storeVerify"
						s, err := adminReq(nc, subj)
						o := &c20Op{Part: "verify", Client: cl, Kind: "verify", Call: call}
						if err == nil {
							o.Ret = mono()
							if s != "" {
								o.Kind = "verify-error:" + s
							}
						}
						record(o)
					}
				}(1000+v, vnc)
			}
		}
		loadDone := make(chan struct{})
		go func() { wg.Wait(); close(loadDone) }()
		wit := func(extra map[string]any) map[string]any {
			m := map[string]any{"history": i, "seed": c.Seed, "clients": nClients, "ops_per_client": opsPer, "stop": stopMode}
			for k, v := range extra {
				m[k] = v
			}
			return m
		}
		if stopMode == "during-load" {
			select {
			case <-stopCh:
			case <-loadDone:
			}
			done := wd.Watch("concurrency:stop-does-not-terminate", wit(nil), 90*time.Second, true)
			ok, _ := in.StopWait(80 * time.Second)
			done()
			stopped = true
			if !ok {
				c.Violate("concurrency:stop-does-not-terminate", "Server.Stop during load: Run did not return", wit(nil))
				return
			}
		}
		done := wd.Watch("concurrency:request-never-answered", wit(nil), 120*time.Second, true)
		<-loadDone
		done()
		c.Eval(len(hist))
		// (2) every request answered (while the instance was up)
		unanswered := 0
		for _, o := range hist {
			if o.Ret == 0 && !o.Lib && !strings.HasPrefix(o.Kind, "write-refused") {
				unanswered++
			}
			if strings.HasPrefix(o.Kind, "write-refused") || strings.HasPrefix(o.Kind, "verify-error") {
				c.Violate("concurrency:legal-request-refused", o.Kind, wit(nil))
				return
			}
			if strings.HasPrefix(o.Kind, "read-failed") && stopMode == "after-load" {
				c.Violate("concurrency:read-failed", o.Kind, wit(nil))
				return
			}
		}
		if unanswered > 0 && stopMode == "after-load" {
			c.Violate("concurrency:request-never-answered", fmt.Sprintf("%d requests got no reply although the instance was running", unanswered), wit(nil))
			return
		}
		// (2a) a sender that does not wait: 260 requests of 40 KiB each published back to back on one
		// connection (about 10 MiB queued at the store at once); each must be answered
		if heavy && !stopped {
			bnc, err := in.Connect()
			if err != nil {
				c.Inconclusive(err.Error())
				return
			}
			inbox := nats.NewInbox()
			var answered, refused int64
			replies := make(chan struct{}, 1024)
			if _, err := bnc.Subscribe(inbox+".*", func(m *nats.Msg) {
				if len(m.Data) != 0 {
					atomic.AddInt64(&refused, 1)
				}
				atomic.AddInt64(&answered, 1)
				replies <- struct{}{}
			}); err != nil {
				c.Inconclusive(err.Error())
				return
			}
			const nBurst = 260
			blob := make([]byte, 40<<10)
			for q := range blob {
				blob[q] = byte(q)
			}
			for q := 0; q < nBurst; q++ {
				pts := data.Points{{Type: "blob", Time: time.Unix(0, 1800000000e9+int64(q)), Value: float64(q), Data: blob, Origin: "burst"}}
				b, _ := pts.ToPb()
				// (spread over the ballast nodes: a node must still fit into one reply message when it is read)
				if err := bnc.PublishRequest(vlib.NodeSubj(fmt.Sprintf("h%d-b%d", i, q%120)), fmt.Sprintf("%s.%d", inbox, q), b); err != nil {
					c.Inconclusive(err.Error())
					return
				}
			}
			_ = bnc.Flush()
			bdone := wd.Watch("concurrency:request-never-answered", wit(map[string]any{"phase": "burst of pipelined requests"}), 120*time.Second, true)
			timeout := time.After(100 * time.Second)
		collect:
			for got := 0; got < nBurst; got++ {
				select {
				case <-replies:
				case <-timeout:
					break collect
				}
			}
			bdone()
			if a := atomic.LoadInt64(&answered); a != nBurst {
				c.Violate("concurrency:request-never-answered", fmt.Sprintf("%d of %d pipelined requests (40 KiB each, published without waiting) were never answered", nBurst-a, nBurst), wit(nil))
				return
			}
			if rf := atomic.LoadInt64(&refused); rf != 0 {
				c.Violate("concurrency:legal-request-refused", fmt.Sprintf("%d of %d pipelined requests were refused", rf, nBurst), wit(nil))
				return
			}
			bnc.Close()
			c.Count("pipelined_bursts_answered", 1)
		}
		// (2b) at rest: verification and the repairing variant (admin.storeMaint) asked for at the same
		// time from two connections; both must be answered and have nothing to complain about
		if heavy && !stopped {
			var awg sync.WaitGroup
			var amu sync.Mutex
			abad := ""
			adone := wd.Watch("concurrency:request-never-answered", wit(map[string]any{"phase": "verify and maint at rest"}), 120*time.Second, true)
			for a, subj := range []string{"admin.storeVerify", "admin.storeMaint"} {
				anc, err := in.Connect()
				if err != nil {
					c.Inconclusive(err.Error())
					return
				}
				awg.Add(1)
				go func(a int, subj string, nc *nats.Conn) {
					defer awg.Done()
					for k := 0; k < 8; k++ {
						s, err := adminReq(nc, subj)
						amu.Lock()
						if abad == "" && (err != nil || s != "") {
							abad = fmt.Sprintf("%s at rest (while the other kind was in flight): %q %v", subj, s, err)
						}
						amu.Unlock()
					}
				}(a, subj, anc)
			}
			awg.Wait()
			adone()
			if abad != "" {
				c.Violate("concurrency:verification-at-rest-fails", abad, wit(nil))
				return
			}
			c.Count("verify_and_maint_overlapping_at_rest", 1)
		}
		// (1) linearizability per identity
		parts := map[string][]porcupine.Operation{}
		endOfTime := mono() + 1
		overlap, rw := 0, 0
		for _, o := range hist {
			if o.Kind != "read" && o.Kind != "write" {
				continue
			}
			ret := o.Ret
			if ret == 0 {
				ret = endOfTime // never answered: may take effect at any later time
			}
			parts[o.Part] = append(parts[o.Part], porcupine.Operation{ClientId: o.Client, Input: o.In, Output: o.Out, Call: o.Call, Return: ret})
		}
		for part, ops := range parts {
			// interleaving statistics
			for a := 0; a < len(ops); a++ {
				for b := a + 1; b < len(ops) && b < a+40; b++ {
					if ops[a].Call <= ops[b].Return && ops[b].Call <= ops[a].Return {
						overlap++
						if ops[a].Input.(regIn).Write != ops[b].Input.(regIn).Write {
							rw++
						}
					}
				}
			}
			res, info := porcupine.CheckOperationsVerbose(maxRegister, ops, 60*time.Second)
			switch res {
			case porcupine.Illegal:
				var hs []string
				sort.Slice(ops, func(a, b int) bool { return ops[a].Call < ops[b].Call })
				for _, o := range ops {
					hs = append(hs, fmt.Sprintf("client %d %v -> %v [%d,%d]", o.ClientId, o.Input, o.Output, o.Call, o.Return))
				}
				_ = info
				c.Violate("concurrency:history-not-linearizable", "the recorded history of identity "+part+" is not linearizable as a newest-timestamp register (stale read, read going back, or lost acknowledged write)", wit(map[string]any{"identity": part, "ops": hs}))
				return
			case porcupine.Unknown:
				c.Inconclusive("linearizability check timed out for " + part)
			}
			c.Count("partitions_checked", 1)
		}
		c.Count("overlapping_pairs", int64(overlap))
		c.Count("concurrent_read_write_pairs", int64(rw))
		// (5) stop and reopen
		if !stopped {
			done := wd.Watch("concurrency:stop-does-not-terminate", wit(nil), 90*time.Second, true)
			ok, _ := in.StopWait(80 * time.Second)
			done()
			stopped = true
			if !ok {
				c.Violate("concurrency:stop-does-not-terminate", "Server.Stop after load: Run did not return", wit(nil))
				return
			}
		}
		db, err := store.NewSqliteDb(file, "")
		if err != nil {
			buf := make([]byte, 1<<21)
			buf = buf[:runtime.Stack(buf, true)]
			var gs []string
			for _, g := range strings.Split(string(buf), "\n\n") {
				if strings.Contains(g, "simpleiot/store.") || strings.Contains(g, "modernc.org/sqlite") {
					gs = append(gs, g)
				}
			}
			c.Violate("concurrency:file-does-not-reopen", "after Stop the store file cannot be opened again: "+err.Error(), wit(map[string]any{"goroutines_in_store": gs}))
			return
		}
		db.Close()
		in2, err := vlib.StartInstance(vlib.InstCfg{StoreFile: file})
		if err != nil {
			c.Violate("concurrency:file-does-not-reopen", "a fresh instance does not start on the file: "+err.Error(), wit(nil))
			return
		}
		defer in2.StopKeepFiles()
		nc2, _ := in2.Connect()
		// (3) final content
		bad, w, err := hashCheck(nc2)
		if err != nil {
			c.Inconclusive(err.Error())
			return
		}
		if bad != "" {
			c.Violate("concurrency:hashes-inconsistent-after-load", bad, wit(map[string]any{"tree": vlib.DumpString(w)}))
			return
		}
		acked := map[string]int64{}
		for _, o := range hist {
			if o.Kind == "write" && o.Ret != 0 && o.In.Ts > acked[o.Part] {
				acked[o.Part] = o.In.Ts
			}
		}
		for part, tss := range sent {
			f := strings.Split(part, "|")
			pl := w[parentOf[f[1]]+"/"+f[1]]
			pts := pl.Points
			if f[0] == "e" {
				pts = pl.EdgePoints
			}
			p, ok := pts.Find(f[2], f[3])
			switch {
			case !ok && acked[part] != 0:
				c.Violate("concurrency:acknowledged-write-lost", "identity "+part+" is missing although a write to it was acknowledged", wit(nil))
				return
			case ok && p.Time.UnixNano() < acked[part]:
				c.Violate("concurrency:acknowledged-write-lost", fmt.Sprintf("identity %s holds t=%d, an acknowledged write had t=%d", part, p.Time.UnixNano(), acked[part]), wit(nil))
				return
			case ok:
				v, known := tss[p.Time.UnixNano()]
				if !known || v != p.Value {
					c.Violate("concurrency:final-content-not-a-written-point", fmt.Sprintf("identity %s holds t=%d v=%v which no client wrote", part, p.Time.UnixNano(), p.Value), wit(nil))
					return
				}
			}
		}
		for key, v := range created {
			pl, ok := w[key]
			p, okp := pl.Points.Find("value", "")
			if !ok || !okp || p.Value != v {
				c.Violate("concurrency:acknowledged-write-lost", fmt.Sprintf("node %s was created and written with acknowledgement during the load but is not there afterwards (found=%v point=%v)", key, ok, okp), wit(nil))
				return
			}
		}
		c.Count("nodes_created_under_load", int64(len(created)))
		c.Count("histories_completed", 1)
		ob := 0
		for overlap>>uint(ob) > 0 {
			ob++
		}
		c.Distinct(fmt.Sprintf("clients~%d stop=%s overlap~2^%d rw=%v", nClients/8*8, stopMode, ob, rw > 0))
		if i < 2 {
			c.Sample(map[string]any{"clients": nClients, "ops": len(hist), "overlapping_pairs": overlap, "concurrent_read_write_pairs": rw, "stop": stopMode, "partitions": len(parts)})
		}
	})
	if res := <-aged; res != "" {
		c.Violate("concurrency:request-never-answered:after-a-minute-of-uptime", res, map[string]any{"seed": c.Seed})
	}
	store.VerifSetHook(nil)
	// (4) race detector
	blocks, _ := raceReports()
	c.Count("race_reports", int64(len(blocks)))
	seen := map[string]bool{}
	var thirdParty []string
	for _, b := range blocks {
		sig, inSiot := raceSignature(b)
		if seen[sig] {
			continue
		}
		seen[sig] = true
		if strings.Contains(sig, "verifharness/") && !inSiot {
			c.CheckError("data race inside the harness itself: " + sig)
			continue
		}
		if inSiot {
			c.Violate("race:"+sig, "the race detector reported a data race in simpleiot code", map[string]any{"report": b})
		} else {
			// both accessing functions are outside simpleiot (e.g. globals of the transpiled SQLite touched by
			// two store handles opened at the same time by parallel histories of this harness): listed, not judged
			c.Count("race_reports_third_party_only", 1)
			thirdParty = append(thirdParty, sig)
		}
	}
	c.Extra("race_reports_outside_simpleiot", thirdParty)
	c.Require("partitions_checked", 50)
	c.Require("overlapping_pairs", 100)
	c.Require("concurrent_read_write_pairs", 10)
	c.Require("histories_completed", 5)
	return c.Finish()
}
