package checks

import (
	"fmt"
	"math"
	"os"
	"runtime"
	"strings"
	"time"

	"github.com/simpleiot/simpleiot/client"
	"github.com/simpleiot/simpleiot/data"

	"verifharness/internal/vlib"
)

func init() { Registry["C05"] = runC05 }

func runC05(tier string, _ []string) int {
	c := vlib.NewCtx("C05", tier, "exploration")
	vlib.SetPortBlock(5)
	c.SetRule("per case a fresh instance with a random graph (C03/C06 generators), then PRNG requests of the classes that must be refused (tombstone on the root; self edge; new edge closing a cycle through live or deleted edges, sent raw and through client.MoveNode / client.MirrorNode; first edge without nodeType; NaN at any position of a node or edge batch, quiet and signalling, both signs) mixed with legal look-alikes that must be accepted (mirror to a non-ancestor, tombstone 0 on the root, +-Inf) and open-status requests (undecodable payloads, root tombstone 2, a request of the bus's maximum payload size - or up to 13 bytes less - made of copies of one identity without time stamps). Monitor: reply of each request; full dump (placements, points, edge points, hashes) before/after every request answered with an error must be identical; an up.> tap drained at the reply barrier must be empty; a follow-up acknowledged write to an unrelated node must be answered. distinct = (request class, graph size bucket, outcome) One instance holds a node placed below 1030-1090 parents (built from the bottom up): edges that would put its far ancestors below it must be refused. Finally 1500 refusals (cycles, NaN, missing node type, root tombstone, self edge) on one instance: the process must hold as many file descriptors and goroutines afterwards as before.")
	c.Assume("a stack overflow / process death caused by a cycle is reported by the check wrapper as a violation (process-death)")
	nGraphs := c.N(40, 400)
	perGraph := c.N(32, 48)
	wd := c.NewWatchdog()
	vlib.Parallel(nGraphs, 6, func(i int) {
		r := vlib.NewR(c.Seed, "c05", i)
		in, err := vlib.StartInstance(vlib.InstCfg{ID: fmt.Sprintf("c05-%d", i)})
		if err != nil {
			c.Inconclusive(err.Error())
			return
		}
		defer in.Stop()
		nc, err := in.Connect()
		if err != nil {
			c.Inconclusive(err.Error())
			return
		}
		own := map[string]bool{} // what the fresh instance holds by itself (root, default admin user)
		if w0, err := vlib.Walk(nc); err == nil {
			for k := range w0 {
				own[k] = true
			}
		}
		d := newGdriver(r, nc, in.RootID, fmt.Sprintf("r%d", i))
		if err := buildShape(d, c06Shapes[r.Intn(len(c06Shapes))]); err != nil {
			c.Violate("store:legal-write-refused", err.Error(), map[string]any{"case": i, "ops": d.Log})
			return
		}
		for k := 0; k < 6; k++ {
			if _, err := d.randomLegalOp(); err != nil {
				c.Violate("store:legal-write-refused", err.Error(), map[string]any{"case": i, "ops": d.Log})
				return
			}
		}
		unrelated, err := d.create(in.RootID, "variable", false)
		if err != nil {
			c.Violate("store:legal-write-refused", err.Error(), map[string]any{"case": i, "ops": d.Log})
			return
		}
		tap, err := vlib.NewTap(nc, "up.>")
		if err != nil {
			c.Inconclusive(err.Error())
			return
		}
		defer tap.Close()
		nan := func() float64 {
			return []float64{math.NaN(), -math.NaN(), math.Float64frombits(0x7ff0000000000001), math.Float64frombits(0xfff8000000000123), math.Float64frombits(0x7ff4000000000000)}[r.Intn(5)]
		}
		classes := []string{"root-tombstone", "self-edge", "cycle", "cycle-deleted", "no-nodetype", "nan-node", "nan-edge", "nan-new-edge", "api-move-cycle", "api-mirror-cycle",
			"nan-stale", "nan-shadowed", "nan-nodetype", "cycle-detached", "cycle-after-reparent",
			"legal-mirror", "legal-root-tombstone0", "legal-inf", "open-garbage-node", "open-garbage-edge", "open-root-tombstone2"}
		modelUnsure := false
		for k := 0; k < perGraph; k++ {
			class := classes[(k+i)%len(classes)]
			if k == perGraph-1 && i%3 == 0 {
				class = "cycle-through-root" // changes what is above the root: last request of the case
			}
			if k == perGraph-1 && i%3 == 1 {
				class = "open-payload-limit" // the model cannot follow it (the store stamps the points): last request of the case
			}
			var subject string
			var pts data.Points
			var raw []byte
			mustRefuse, mustAccept := false, false
			node, parent := "", ""
			edgeWrite := false
			switch class {
			case "root-tombstone":
				node, parent, edgeWrite, mustRefuse = in.RootID, "root", true, true
				pts = data.Points{{Type: data.PointTypeTombstone, Key: []string{"", "", "0"}[r.Intn(3)], Time: d.now(), Value: []float64{1, 1, 3, 0.5}[r.Intn(4)], Tombstone: []int{0, 0, 1}[r.Intn(3)], Origin: "u"}}
				if r.Chance(0.3) {
					pts = append(data.Points{{Type: "role", Time: d.now(), Text: "x"}}, pts...)
				}
			case "self-edge":
				node = d.pickNode()
				if r.Chance(0.3) {
					node = in.RootID
				}
				parent, edgeWrite, mustRefuse = node, true, true
				pts = data.Points{{Type: data.PointTypeTombstone, Time: d.now(), Value: 0}, {Type: data.PointTypeNodeType, Text: "group"}}
			case "cycle", "cycle-deleted":
				// find (anc, desc) with anc a proper ancestor of desc and no edge desc->anc yet
				found := false
				for try := 0; try < 40 && !found; try++ {
					desc := d.pickNode()
					ancs := keysOf(d.g.Ancestors(desc, true))
					if len(ancs) == 0 {
						continue
					}
					anc := ancs[r.Intn(len(ancs))]
					if anc == "root" || anc == "none" || d.g.HasEdge(desc, anc) {
						continue
					}
					if class == "cycle-deleted" {
						// tombstone one edge on the path first: deleted edges still count
						ps := d.g.Parents(desc, true)
						p := ps[r.Intn(len(ps))]
						if p != "root" && p != "none" && !d.g.Deleted(p, desc) && d.g.Ancestors(desc, true)[anc] {
							if e, err := d.sendEdge(desc, p, data.Points{{Type: data.PointTypeTombstone, Time: d.now(), Value: 1}}); err != nil || e != "" {
								c.Violate("store:legal-write-refused", fmt.Sprint("tombstone: ", err, e), map[string]any{"case": i, "ops": d.Log})
								return
							}
						}
					}
					// new edge desc -> anc (anc becomes a child of desc) closes the cycle
					node, parent, edgeWrite, mustRefuse, found = anc, desc, true, true, true
				}
				if !found {
					continue
				}
				pts = data.Points{{Type: data.PointTypeTombstone, Time: d.now(), Value: 0}, {Type: data.PointTypeNodeType, Text: d.g.Types[node]}}
			case "api-move-cycle", "api-mirror-cycle":
				// the same refusals through the public helpers (client.MoveNode / client.MirrorNode), which read the node first
				found := false
				var anc, desc, ancParent string
				for try := 0; try < 40 && !found; try++ {
					desc = d.pickNode()
					ancs := keysOf(d.g.Ancestors(desc, true))
					if len(ancs) == 0 {
						continue
					}
					anc = ancs[r.Intn(len(ancs))]
					if anc == "root" || anc == "none" || anc == in.RootID || d.g.HasEdge(desc, anc) {
						continue
					}
					ps := d.g.Parents(anc, false)
					if len(ps) == 0 {
						continue
					}
					ancParent, found = ps[0], true
				}
				if !found {
					continue
				}
				before, err := vlib.Walk(nc)
				if err != nil {
					c.Inconclusive(fmt.Sprint("walk: ", err))
					return
				}
				tap.Drain()
				var apiErr error
				done := wd.Watch("refused-write:request-not-answered:"+class, map[string]any{"case": i, "class": class, "ops": d.Log}, 90*time.Second, true)
				if class == "api-move-cycle" {
					apiErr = client.MoveNode(nc, anc, ancParent, desc, "user-x")
				} else {
					apiErr = client.MirrorNode(nc, anc, desc, "user-x")
				}
				done()
				c.Eval(1)
				msgs := tap.Drain()
				wit := map[string]any{"case": i, "seed": c.Seed, "class": class, "node": anc, "new_parent": desc, "old_parent": ancParent, "api_error": fmt.Sprint(apiErr), "ops": d.Log, "edges": d.g.EdgeKeys()}
				if apiErr == nil {
					c.Violate("refused-write:accepted:"+class, "moving / mirroring a node below its own descendant succeeded", wit)
					return
				}
				after, err := vlib.Walk(nc)
				if err != nil {
					c.Violate("refused-write:instance-unreadable-after:"+class, err.Error(), wit)
					return
				}
				if b, a := vlib.DumpString(before), vlib.DumpString(after); b != a {
					wit["before"], wit["after"] = b, a
					c.Violate("refused-write:left-a-trace-in-store:"+class, "a refused move / mirror changed stored content or hashes", wit)
					return
				}
				if len(msgs) > 0 {
					c.Violate("refused-write:rebroadcast:"+class, "a refused move / mirror was announced on the rebroadcast subjects", wit)
					return
				}
				c.Count("refused_checked", 1)
				c.Distinct(class + " refused")
				continue
			case "no-nodetype":
				node, parent, edgeWrite, mustRefuse = d.newID(), d.pickNode(), true, true
				pts = data.Points{{Type: data.PointTypeTombstone, Time: d.now(), Value: 0}}
				if r.Chance(0.5) {
					pts = append(pts, data.Point{Type: "role", Time: d.now(), Text: "admin"})
				}
			case "nan-node", "nan-edge", "nan-new-edge":
				pts = d.somePoints(1 + r.Intn(4))
				pts[r.Intn(len(pts))].Value = nan()
				mustRefuse = true
				switch class {
				case "nan-node":
					node = d.pickNode()
					if r.Chance(0.2) {
						node = in.RootID
					}
				case "nan-edge":
					p, n, ok := d.pickEdge()
					if !ok {
						continue
					}
					node, parent, edgeWrite = n, p, true
				case "nan-new-edge":
					node, parent, edgeWrite = d.newID(), d.pickNode(), true
					pts = append(pts, data.Point{Type: data.PointTypeNodeType, Text: "variable"})
				}
			case "nan-stale", "nan-shadowed":
				// a NaN in a position the merge would drop anyway: older than the stored point of its
				// identity, or shadowed by a newer point of the same identity in the same batch
				tOld := d.now()
				tNew := d.now()
				id := data.Point{Type: "nanv", Key: []string{"", "0", "k"}[r.Intn(3)]}
				legal := data.Point{Type: id.Type, Key: id.Key, Time: tNew, Value: float64(k)}
				bad := data.Point{Type: id.Type, Key: id.Key, Time: tOld, Value: nan()}
				onEdge := r.Chance(0.4)
				if onEdge {
					pp, n, ok := d.pickEdge()
					if !ok {
						continue
					}
					node, parent, edgeWrite = n, pp, true
				} else {
					node = d.pickNode()
				}
				mustRefuse = true
				if class == "nan-stale" {
					var e string
					var err error
					if onEdge {
						e, err = d.sendEdge(node, parent, data.Points{legal})
					} else {
						e, err = d.sendNode(node, data.Points{legal})
					}
					if err != nil || e != "" {
						c.Violate("store:legal-write-refused", fmt.Sprint("nan-stale setup: ", err, e), map[string]any{"case": i, "ops": d.Log})
						return
					}
					pts = append(d.somePoints(r.Intn(3)), bad)
				} else {
					pts = d.somePoints(r.Intn(3))
					if r.Chance(0.5) {
						pts = append(pts, bad, legal)
					} else {
						pts = append(pts, legal, bad)
					}
				}
			case "nan-nodetype":
				node, parent, edgeWrite, mustRefuse = d.newID(), d.pickNode(), true, true
				pts = data.Points{{Type: data.PointTypeTombstone, Time: d.now(), Value: 0}, {Type: data.PointTypeNodeType, Text: "variable", Value: nan()}}
			case "cycle-after-reparent":
				// the ancestors of a node change after it got children (an ancestor is mirrored below another
				// branch); then that other branch is aimed below the node: a cycle through the new edge
				found := false
				var low, mid, other string
				for try := 0; try < 60 && !found; try++ {
					low = d.pickNode()
					if len(d.g.Children(low, true)) == 0 && r.Chance(0.7) {
						continue // prefer nodes that had children created below them
					}
					ancs := keysOf(d.g.Ancestors(low, true))
					if len(ancs) == 0 {
						continue
					}
					mid = ancs[r.Intn(len(ancs))]
					other = d.pickNode()
					if mid == "root" || mid == "none" || mid == in.RootID || other == in.RootID || other == low || other == mid {
						continue
					}
					if d.g.Ancestors(other, true)[mid] || d.g.Ancestors(mid, true)[other] || d.g.Ancestors(low, true)[other] || d.g.Ancestors(other, true)[low] || d.g.HasEdge(other, mid) {
						continue // other must be unrelated to the branch so far
					}
					found = true
				}
				if !found {
					continue
				}
				mpts := data.Points{{Type: data.PointTypeTombstone, Time: d.now(), Value: 0}, {Type: data.PointTypeNodeType, Text: d.g.Types[mid]}}
				if e, err := d.sendEdge(mid, other, mpts); err != nil || e != "" {
					c.Violate("store:legal-write-refused", fmt.Sprintf("legal mirror of %s below %s refused: %v %s", mid, other, err, e), map[string]any{"case": i, "ops": d.Log, "edges": d.g.EdgeKeys()})
					return
				}
				// other -> mid -> ... -> low exists now; low -> other would close it
				node, parent, edgeWrite, mustRefuse = other, low, true, true
				pts = data.Points{{Type: data.PointTypeTombstone, Time: d.now(), Value: 0}, {Type: data.PointTypeNodeType, Text: d.g.Types[other]}}
			case "cycle-through-root":
				// the instance root itself is mirrored below a foreign id (accepted: the root is a node like any
				// other below it); that id is then an ancestor of everything and must not be placed below the root
				x := d.newID()
				rpts := data.Points{{Type: data.PointTypeTombstone, Time: d.now(), Value: 0}, {Type: data.PointTypeNodeType, Text: "device"}}
				e, err := d.sendEdge(in.RootID, x, rpts)
				if err != nil {
					c.Violate("refused-write:request-not-answered:"+class, fmt.Sprint("mirror of the root below a foreign id: ", err), map[string]any{"case": i, "ops": d.Log})
					return
				}
				if e != "" {
					continue // refusing that mirror is fine too
				}
				below := d.pickNode()
				node, parent, edgeWrite, mustRefuse = x, below, true, true
				pts = data.Points{{Type: data.PointTypeTombstone, Time: d.now(), Value: 0}, {Type: data.PointTypeNodeType, Text: "group"}}
			case "cycle-detached":
				// a child edge is accepted below a parent that is not attached anywhere yet (import / sync
				// order); that parent's first edge is then aimed below its own descendant
				det, child := d.newID(), d.newID()
				cpts := data.Points{{Type: data.PointTypeTombstone, Time: d.now(), Value: 0}, {Type: data.PointTypeNodeType, Text: "variable"}}
				e, err := d.sendEdge(child, det, cpts)
				if err != nil {
					c.Violate("refused-write:request-not-answered:"+class, fmt.Sprint("edge below a detached parent: ", err), map[string]any{"case": i, "ops": d.Log})
					return
				}
				if e != "" {
					continue // the store may refuse edges below unknown parents; then there is nothing to close
				}
				d.g.ApplyEdgePoints(child, det, cpts)
				d.g.Types[child] = "variable"
				below := child
				if r.Chance(0.4) {
					// one level deeper
					gc := d.newID()
					gpts := data.Points{{Type: data.PointTypeTombstone, Time: d.now(), Value: 0}, {Type: data.PointTypeNodeType, Text: "variable"}}
					if e, err := d.sendEdge(gc, child, gpts); err == nil && e == "" {
						d.g.ApplyEdgePoints(gc, child, gpts)
						d.g.Types[gc] = "variable"
						below = gc
					}
				}
				node, parent, edgeWrite, mustRefuse = det, below, true, true
				pts = data.Points{{Type: data.PointTypeTombstone, Time: d.now(), Value: 0}, {Type: data.PointTypeNodeType, Text: "group"}}
			case "legal-mirror":
				node = d.pickNode()
				parent = d.pickNode()
				if d.g.HasEdge(parent, node) || d.g.WouldCycle(node, parent) {
					continue
				}
				edgeWrite, mustAccept = true, true
				pts = data.Points{{Type: data.PointTypeTombstone, Time: d.now(), Value: 0}, {Type: data.PointTypeNodeType, Text: d.g.Types[node]}}
			case "legal-root-tombstone0":
				node, parent, edgeWrite, mustAccept = in.RootID, "root", true, true
				pts = data.Points{{Type: data.PointTypeTombstone, Time: d.now(), Value: 0}}
			case "legal-inf":
				node, mustAccept = d.pickNode(), true
				pts = data.Points{{Type: "value", Time: d.now(), Value: math.Inf(1 - 2*r.Intn(2))}}
			case "open-garbage-node", "open-garbage-edge":
				node = d.pickNode()
				raw = make([]byte, 1+r.Intn(30))
				r.Read(raw)
				if class == "open-garbage-edge" {
					ps := d.g.Parents(node, true)
					parent, edgeWrite = ps[0], true
				}
			case "open-payload-limit":
				// a request whose size is the bus's maximum payload or a few bytes less, made of copies of ONE
				// identity without time stamps (the store stamps them, so whatever it sends on is larger than what
				// it received). Whatever the answer is, it must be true: an error only if nothing changed
				node = d.pickNode()
				maxP := int(nc.MaxPayload())
				short := []int{0, 1, 2, 3, 5, 8, 13}[r.Intn(7)]
				filler := strings.Repeat("x", 180+r.Intn(60))
				onePt := data.Points{{Type: "blob", Key: "dup", Text: "000000" + filler, Origin: "u"}}
				one, _ := onePt.ToPb()
				for n := 0; (n+1)*len(one) < maxP-1000; n++ {
					pts = append(pts, data.Point{Type: "blob", Key: "dup", Text: fmt.Sprintf("%06d%s", n, filler), Origin: "u"})
				}
				for try := 0; try < 8; try++ {
					b, _ := pts.ToPb()
					diff := maxP - short - len(b)
					if diff == 0 {
						break
					}
					last := &pts[len(pts)-1]
					if diff > 0 {
						last.Text += strings.Repeat("y", diff)
					} else if -diff < len(last.Text) {
						last.Text = last.Text[:len(last.Text)+diff]
					}
				}
				if b, _ := pts.ToPb(); len(b) > maxP {
					pts = pts[:len(pts)-1]
				}
			case "open-root-tombstone2":
				node, parent, edgeWrite = in.RootID, "root", true
				pts = data.Points{{Type: data.PointTypeTombstone, Time: d.now(), Value: 2}}
			}
			if edgeWrite {
				subject = vlib.EdgeSubj(node, parent)
			} else {
				subject = vlib.NodeSubj(node)
			}
			wit := map[string]any{"case": i, "seed": c.Seed, "class": class, "subject": subject, "points": witnessPoints(pts), "raw": raw, "ops": d.Log, "edges": d.g.EdgeKeys()}
			if class == "open-payload-limit" {
				b, _ := pts.ToPb()
				wit["points"] = fmt.Sprintf("%d copies of (blob, dup) without time stamps, %d bytes encoded, the bus allows %d", len(pts), len(b), nc.MaxPayload())
			}
			before, err := vlib.Walk(nc)
			if err != nil {
				c.Inconclusive(fmt.Sprint("walk: ", err))
				return
			}
			tap.Drain()
			done := wd.Watch("refused-write:request-not-answered:"+class, wit, 90*time.Second, true)
			var reply string
			if raw != nil {
				m, e := nc.Request(subject, raw, vlib.ReqTimeout)
				err = e
				if e == nil {
					reply = string(m.Data)
				}
			} else {
				reply, err = vlib.SendAck(nc, subject, pts)
			}
			done()
			c.Eval(1)
			if err != nil {
				c.Violate("refused-write:request-not-answered:"+class, fmt.Sprintf("no reply to %s request: %v", class, err), wit)
				return
			}
			wit["reply"] = reply
			msgs := tap.Drain()
			outcome := "accepted"
			if reply != "" {
				outcome = "refused"
			}
			if mustRefuse && reply == "" {
				c.Violate("refused-write:accepted:"+class, "a write that must be refused was acknowledged without error", wit)
				return
			}
			if mustAccept && reply != "" {
				c.Violate("store:legal-write-refused", fmt.Sprintf("legal %s refused: %s", class, reply), wit)
				return
			}
			if reply != "" {
				after, err := vlib.Walk(nc)
				if err != nil {
					c.Violate("refused-write:instance-unreadable-after:"+class, "tree cannot be read after a refused write: "+err.Error(), wit)
					return
				}
				if b, a := vlib.DumpString(before), vlib.DumpString(after); b != a {
					wit["before"], wit["after"] = b, a
					c.Violate("refused-write:left-a-trace-in-store:"+class, "a write answered with an error changed stored content or hashes", wit)
					return
				}
				if len(msgs) > 0 {
					var subs []string
					for _, m := range msgs {
						subs = append(subs, m.Subject)
					}
					wit["rebroadcast"] = subs
					c.Violate("refused-write:rebroadcast:"+class, fmt.Sprintf("a write answered with an error was announced on %v", subs), wit)
					return
				}
				c.Count("refused_checked", 1)
			} else if class == "open-payload-limit" {
				modelUnsure = true
				c.Count("requests_at_the_payload_limit_accepted", 1)
			} else if raw == nil {
				if edgeWrite {
					d.g.ApplyEdgePoints(node, parent, pts)
				} else {
					d.g.ApplyNodePoints(node, pts)
				}
			}
			// the instance keeps answering
			done = wd.Watch("refused-write:later-request-not-answered", wit, 90*time.Second, true)
			e, err := d.sendNode(unrelated, data.Points{{Type: "value", Time: d.now(), Value: float64(k)}})
			done()
			if err != nil || e != "" {
				c.Violate("refused-write:later-request-not-answered", fmt.Sprintf("follow-up write after %s: %v %s", class, err, e), wit)
				return
			}
			if raw != nil && reply == "" {
				modelUnsure = true // undecodable-looking bytes were accepted: the model cannot know what was stored
			}
			if reply != "" && !modelUnsure {
				// nothing of the refused request may surface later either: the tree after the next accepted
				// write is the model (accepted writes only), with consistent hashes
				w3, err := vlib.Walk(nc)
				if err != nil {
					c.Violate("refused-write:instance-unreadable-after:"+class, "tree cannot be read after the follow-up write: "+err.Error(), wit)
					return
				}
				if diff := vlib.ContentDiff(w3, d.g, own); diff != "" {
					wit["tree"] = vlib.DumpString(w3)
					c.Violate("refused-write:left-a-trace-in-store:"+class+":seen-after-the-next-write", "after the write that followed a refused "+class+" request: "+diff, wit)
					return
				}
				ref := vlib.RefHashes(w3)
				for key, pl := range w3 {
					if ref[key] != pl.Hash {
						c.Violate("refused-write:left-a-trace-in-store:"+class+":seen-after-the-next-write", fmt.Sprintf("after the write that followed a refused %s request: placement %s stored hash %08x, Merkle hash of its content %08x", class, key, pl.Hash, ref[key]), wit)
						return
					}
				}
				c.Count("content_checked_after_follow_up_write", 1)
			}
			nb := len(before) / 4 * 4
			c.Distinct(fmt.Sprintf("%s placements~%d %s", class, nb, outcome))
			if i == 0 && k < 3 {
				c.Sample(map[string]any{"class": class, "subject": subject, "points": witnessPoints(pts), "reply": reply})
			}
		}
	})
	// ---- scale: a node with more than a thousand parents; the far end of all those ways up is
	// still an ancestor, and an edge that puts it below the node is a cycle like any other
	if !vlib.Aborted() {
		func() {
			r := vlib.NewR(c.Seed, "c05wide", 0)
			in, err := vlib.StartInstance(vlib.InstCfg{ID: "c05-wide"})
			if err != nil {
				c.Inconclusive(err.Error())
				return
			}
			defer in.Stop()
			nc, err := in.Connect()
			if err != nil {
				c.Inconclusive(err.Error())
				return
			}
			d := newGdriver(r, nc, in.RootID, "wd")
			n := 1030 + r.Intn(60)
			hub, groups, p, err := buildWide(d, in.RootID, n, "group")
			if err != nil {
				c.Violate("store:legal-write-refused", "wide graph: "+err.Error(), map[string]any{"stage": "wide"})
				return
			}
			wit := map[string]any{"stage": "wide", "seed": c.Seed, "parents": n}
			for _, anc := range []string{hub, groups[n-1], groups[n/2], in.RootID} {
				done := wd.Watch("refused-write:request-not-answered:cycle-wide", wit, 120*time.Second, true)
				reply, err := vlib.SendAck(nc, vlib.EdgeSubj(anc, p), data.Points{{Type: data.PointTypeTombstone, Time: d.now()}, {Type: data.PointTypeNodeType, Text: "group"}})
				done()
				c.Eval(1)
				if err != nil {
					c.Violate("refused-write:request-not-answered:cycle-wide", fmt.Sprintf("no reply to an edge that puts ancestor %s below a node with %d parents: %v", anc, n, err), wit)
					return
				}
				if reply == "" {
					c.Violate("refused-write:accepted:cycle-wide", fmt.Sprintf("an edge that puts ancestor %s below a node with %d parents (a cycle) was acknowledged", anc, n), wit)
					return
				}
			}
			if e, err := d.sendNode(p, d.somePoints(2)); err != nil || e != "" {
				c.Violate("refused-write:later-request-not-answered", fmt.Sprintf("write after the refused cycles: %v %s", err, e), wit)
				return
			}
			c.Count("cycles_refused_below_a_thousand_parents", 4)
		}()
	}
	// ---- refusals leave nothing behind in the process either: after several hundred refusals of each
	// kind on one instance it holds as many file descriptors and goroutines as before (an instance that
	// leaks one per refusal stops answering once the limit is reached)
	if !vlib.Aborted() {
		func() {
			r := vlib.NewR(c.Seed, "c05leak", 0)
			in, err := vlib.StartInstance(vlib.InstCfg{ID: "c05-leak"})
			if err != nil {
				c.Inconclusive(err.Error())
				return
			}
			defer in.Stop()
			nc, err := in.Connect()
			if err != nil {
				c.Inconclusive(err.Error())
				return
			}
			d := newGdriver(r, nc, in.RootID, "lk")
			a, _ := d.create(in.RootID, "group", false)
			b, _ := d.create(a, "group", false)
			cc, err := d.create(b, "variable", false)
			if err != nil {
				c.Violate("store:legal-write-refused", err.Error(), nil)
				return
			}
			count := func() (fds, gor int) {
				es, _ := os.ReadDir("/proc/self/fd")
				return len(es), runtime.NumGoroutine()
			}
			refuse := func(rounds int) bool {
				for q := 0; q < rounds; q++ {
					reqs := []struct {
						subj string
						pts  data.Points
					}{
						{vlib.EdgeSubj(a, cc), data.Points{{Type: data.PointTypeTombstone, Time: d.now()}, {Type: data.PointTypeNodeType, Text: "group"}}}, // cycle
						{vlib.EdgeSubj(a, b), data.Points{{Type: data.PointTypeTombstone, Time: d.now()}, {Type: data.PointTypeNodeType, Text: "group"}}},  // cycle (short)
						{vlib.NodeSubj(cc), data.Points{{Type: "value", Time: d.now(), Value: math.NaN()}}},
						{vlib.EdgeSubj(d.newID(), a), data.Points{{Type: data.PointTypeTombstone, Time: d.now()}}}, // no node type
						{vlib.EdgeSubj(in.RootID, "root"), data.Points{{Type: data.PointTypeTombstone, Time: d.now(), Value: 1}}},
						{vlib.EdgeSubj(b, b), data.Points{{Type: data.PointTypeTombstone, Time: d.now()}, {Type: data.PointTypeNodeType, Text: "group"}}},
					}
					for _, rq := range reqs {
						e, err := vlib.SendAck(nc, rq.subj, rq.pts)
						c.Eval(1)
						if err != nil || e == "" {
							c.Violate("refused-write:accepted:repeated-refusals", fmt.Sprintf("request on %s in round %d of repeated refusals: reply %q err %v", rq.subj, q, e, err), nil)
							return false
						}
					}
				}
				return true
			}
			if !refuse(20) { // warm-up: pools and caches reach their working size
				return
			}
			time.Sleep(300 * time.Millisecond)
			f0, g0 := count()
			if !refuse(250) {
				return
			}
			time.Sleep(300 * time.Millisecond)
			f1, g1 := count()
			c.Extra("descriptors_before_after_1500_refusals", []int{f0, f1})
			c.Extra("goroutines_before_after_1500_refusals", []int{g0, g1})
			if f1-f0 > 60 || g1-g0 > 60 {
				c.Violate("refused-write:left-a-trace-in-process", fmt.Sprintf("1500 refused requests left %d more open file descriptors and %d more goroutines behind (before %d / %d, after %d / %d)", f1-f0, g1-g0, f0, g0, f1, g1), nil)
				return
			}
			if e, err := d.sendNode(cc, data.Points{{Type: "value", Time: d.now(), Value: 1}}); err != nil || e != "" {
				c.Violate("refused-write:later-request-not-answered", fmt.Sprintf("write after 1500 refusals: %v %s", err, e), nil)
				return
			}
			c.Count("repeated_refusals_without_leak", 1)
		}()
	}
	c.Require("refused_checked", 40)
	return c.Finish()
}
