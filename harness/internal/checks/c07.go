package checks

import (
	"fmt"
	"math/rand"
	"runtime"
	"sort"
	"strings"
	"sync"
	"time"

	"github.com/nats-io/nats.go"
	"github.com/simpleiot/simpleiot/client"
	"github.com/simpleiot/simpleiot/data"

	"verifharness/internal/vlib"
)

func init() { Registry["C07"] = runC07 }

// vmCase is one running manager under observation.
type vmCase struct {
	c  *vlib.Ctx
	wd *vlib.Watchdog
	in *vlib.Instance
	// nodes whose configuration stays undecodable: nothing is demanded for them, everything for the rest
	undecodable map[string]bool
	nc          *nats.Conn
	mon         *vMonitor
	d           *gdriver
	mgr         *client.Manager[VNode]
	done        chan error
	unh         func()
	i           int

	barrierN int
}

func (v *vmCase) wit(extra map[string]any) map[string]any {
	evs := v.mon.snapshot()
	var tail []string
	for _, e := range evs {
		s := fmt.Sprintf("%d %s %s #%d", e.Seq, e.Kind, e.Key, e.Client)
		if e.Kind == "mark" || e.Kind == "beforeConstruct" || e.Kind == "deleteCS" {
			s = fmt.Sprintf("%d %s %s", e.Seq, e.Kind, e.Node)
		}
		tail = append(tail, s)
	}
	if len(tail) > 300 {
		tail = tail[len(tail)-300:]
	}
	buf := make([]byte, 1<<20)
	buf = buf[:runtime.Stack(buf, true)]
	var gs []string
	for _, g := range strings.Split(string(buf), "\n\n") {
		if strings.Contains(g, "simpleiot/client.(*Manager") || strings.Contains(g, "simpleiot/client.(*clientState") {
			gs = append(gs, g)
		}
	}
	m := map[string]any{"case": v.i, "seed": v.c.Seed, "ops": v.d.Log, "events": tail, "edges": v.d.g.EdgeKeys(), "goroutines": gs}
	for k, x := range extra {
		m[k] = x
	}
	return m
}

// startVM starts an instance plus a manager for VNode with injected delays.
func startVM(c *vlib.Ctx, wd *vlib.Watchdog, i int, r *vlib.R, maxDelayMs int) (*vmCase, error) {
	return startVMWith(c, wd, i, r, maxDelayMs, nil)
}

// startVMWith: pre (if any) populates the store before the manager is started (a manager that starts
// on existing data).
func startVMWith(c *vlib.Ctx, wd *vlib.Watchdog, i int, r *vlib.R, maxDelayMs int, pre func(d *gdriver) error) (*vmCase, error) {
	in, err := vlib.StartInstance(vlib.InstCfg{ID: fmt.Sprintf("%s-%d", c.ID, i)})
	if err != nil {
		return nil, err
	}
	nc, err := in.Connect()
	if err != nil {
		in.Stop()
		return nil, err
	}
	mnc, err := in.Connect()
	if err != nil {
		in.Stop()
		return nil, err
	}
	v := &vmCase{c: c, wd: wd, in: in, nc: nc, mon: newVMonitor(), i: i}
	dr := rand.New(rand.NewSource(r.Int63()))
	var dmu sync.Mutex
	if maxDelayMs > 0 {
		v.mon.delay = func(string) time.Duration {
			dmu.Lock()
			defer dmu.Unlock()
			if dr.Intn(3) == 0 {
				return 0
			}
			return time.Duration(dr.Intn(maxDelayMs*1000)) * time.Microsecond
		}
	}
	root := in.RootID
	tag := fmt.Sprintf("m%d", i)
	v.unh = addClientHook(func(site string, args ...any) {
		switch site {
		case "manager.scanStart", "manager.scanDone":
			if len(args) >= 2 && args[0] == "vNode" && args[1] == root {
				v.mon.add(vEvent{Kind: site[len("manager."):]})
			}
		case "manager.beforeConstruct", "manager.deleteCS":
			if len(args) >= 3 && args[1] == root {
				v.mon.add(vEvent{Kind: site[len("manager."):], Node: fmt.Sprint(args[2])})
				if site == "manager.beforeConstruct" {
					v.mon.sleep(site)
				}
			}
		case "cs.afterStop":
			if len(args) >= 2 && strings.HasPrefix(fmt.Sprint(args[1]), tag+"-") {
				v.mon.sleep(site)
			}
		}
	})
	v.d = newGdriver(r, nc, in.RootID, tag)
	if pre != nil {
		if err := pre(v.d); err != nil {
			in.Stop()
			return nil, err
		}
	}
	v.mgr = client.NewManager(mnc, v.mon.construct, []string{"vParent"})
	v.done = make(chan error, 1)
	go func() { v.done <- v.mgr.Run() }()
	return v, nil
}

func (v *vmCase) close() {
	v.unh()
	v.in.Stop()
}

// expectedPlacements: vNode placements the manager must serve, from the model.
func (v *vmCase) expectedPlacements() map[string]bool {
	g := v.d.g
	if v.undecodable == nil {
		v.undecodable = map[string]bool{}
	}
	containers := map[string]bool{g.Root: true}
	var rec func(n string)
	rec = func(n string) {
		for _, ch := range g.Children(n, false) {
			if t := g.Types[ch]; (t == "group" || t == "vParent") && !containers[ch] {
				containers[ch] = true
				rec(ch)
			}
		}
	}
	rec(g.Root)
	out := map[string]bool{}
	for cn := range containers {
		for _, ch := range g.Children(cn, false) {
			if g.Types[ch] == "vNode" && !v.undecodable[ch] {
				out[cn+"/"+ch] = true
			}
		}
	}
	return out
}

// invariantI2 compares running clients with the model. "" = holds.
func (v *vmCase) invariantI2() string {
	evs := v.mon.snapshot()
	running := runningClients(evs)
	want := v.expectedPlacements()
	for k := range want {
		switch len(running[k]) {
		case 0:
			return fmt.Sprintf("no running client for live placement %s", k)
		case 1:
		default:
			return fmt.Sprintf("%d running clients for placement %s", len(running[k]), k)
		}
		cfg := running[k][0].Config
		var kids []string
		for _, kd := range cfg.Kids {
			kids = append(kids, kd.ID)
		}
		sort.Strings(kids)
		var wantKids []string
		for _, ch := range v.d.g.Children(cfg.ID, false) {
			if v.d.g.Types[ch] == "vChild" {
				wantKids = append(wantKids, ch)
			}
		}
		if fmt.Sprint(kids) != fmt.Sprint(wantKids) {
			return fmt.Sprintf("client for %s was constructed with children %v, live children are %v", k, kids, wantKids)
		}
	}
	for k, cl := range running {
		if i := strings.LastIndex(k, "/"); i >= 0 && v.undecodable[k[i+1:]] {
			continue // nothing is demanded for a node whose configuration cannot be decoded
		}
		if !want[k] {
			return fmt.Sprintf("client #%d still running for %s, which is not a live configured placement", cl[0].Client, k)
		}
	}
	return ""
}

// forceRescan creates an unrelated node (a real scan trigger) and waits for a
// scan that started after it to finish, then for stopping clients to return.
func (v *vmCase) forceRescan() error {
	seq0 := v.mon.mark("force-rescan")
	id := v.d.newID()
	if e, err := vlib.SendAck(v.nc, vlib.EdgeSubj(id, v.in.RootID), data.Points{{Type: data.PointTypeTombstone, Time: v.d.now()}, {Type: data.PointTypeNodeType, Text: "tforce"}}); err != nil || e != "" {
		return fmt.Errorf("%w: forcing node refused: %v %s", vlib.ErrInfra, err, e)
	}
	v.d.g.ApplyEdgePoints(id, v.in.RootID, data.Points{{Type: data.PointTypeTombstone}, {Type: data.PointTypeNodeType, Text: "tforce"}})
	// the manager rescans on every node-type point it sees and, as a fallback, after one minute without
	// events; the limit is below that fallback (and 300 times what a scan normally needs), so that a node
	// creation the manager lost track of is told apart from one it acted on
	done := v.wd.Watch("manager:no-scan-after-node-creation", v.wit(nil), 30*time.Second, true)
	defer done()
	for {
		evs := v.mon.snapshot()
		started := int64(0)
		finished := false
		for _, e := range evs {
			if e.Seq <= seq0 {
				continue
			}
			if e.Kind == "scanStart" && started == 0 {
				started = e.Seq
			}
			if e.Kind == "scanDone" && started != 0 && e.Seq > started {
				finished = true
			}
		}
		if finished {
			break
		}
		time.Sleep(2 * time.Millisecond)
	}
	return v.waitStopped()
}

// waitStopped: clients that were told to stop must return (their Run obeys Stop by construction) and
// the manager must have taken them off its books (deleteCS), after which it rescans by itself.
// These are logical steps of the manager's own stop/restart machinery, so the harness waits
// for the events rather than for wall-clock time.
func (v *vmCase) waitStopped() error {
	done := v.wd.Watch("manager:stopped-client-never-removed", v.wit(nil), 90*time.Second, true)
	defer done()
	for {
		evs := v.mon.snapshot()
		stopping := map[string]int{} // manager key -> clients stopped and not yet deleted
		for _, e := range evs {
			k := strings.Replace(e.Key, "/", "-", 1)
			switch e.Kind {
			case "stop-called":
				stopping[k]++
			case "deleteCS":
				if stopping[e.Node] > 0 {
					stopping[e.Node]--
				}
			}
		}
		pending := 0
		for _, n := range stopping {
			pending += n
		}
		if pending == 0 {
			return nil
		}
		time.Sleep(2 * time.Millisecond)
	}
}

// drainClients sends a marker point (foreign origin) to the node of every running client and
// waits until each client instance has either been handed the marker or been told to stop.
// Deliveries to one client are serialised by its subscription, so a delivered marker means that
// everything written before it has been processed by the manager's per-client handler (which may
// legitimately spend up to 5 s confirming a deletion in the store).
func (v *vmCase) drainClients() error {
	v.barrierN++
	text := fmt.Sprintf("barrier-%d", v.barrierN)
	evs := v.mon.snapshot()
	stopped := map[int64]bool{}
	for _, e := range evs {
		if e.Kind == "stop-called" {
			stopped[e.Client] = true
		}
	}
	waitFor := map[int64]bool{}
	nodes := map[string]bool{}
	for _, cl := range runningClients(evs) {
		for _, e := range cl {
			if !stopped[e.Client] {
				waitFor[e.Client] = true
				nodes[e.Node] = true
			}
		}
	}
	for n := range nodes {
		if e, err := vlib.SendAck(v.nc, vlib.NodeSubj(n), data.Points{{Type: "vmarker", Time: v.d.now(), Text: text, Origin: "barrier"}}); err != nil || e != "" {
			return fmt.Errorf("%w: barrier marker refused: %v %s", vlib.ErrInfra, err, e)
		}
	}
	done := v.wd.Watch("manager:client-subscription-stuck", v.wit(nil), 90*time.Second, true)
	defer done()
	for {
		evs = v.mon.snapshot()
		for _, e := range evs {
			switch {
			case e.Kind == "stop-called", e.Kind == "run-returned":
				delete(waitFor, e.Client)
			case e.Kind == "points" && len(e.Points) == 1 && e.Points[0].Type == "vmarker" && e.Points[0].Text == text:
				delete(waitFor, e.Client)
			}
		}
		if len(waitFor) == 0 {
			return nil
		}
		time.Sleep(2 * time.Millisecond)
	}
}

// quiesce: I2 must hold within 6 forced rescans and then stay true for 2 more.
func (v *vmCase) quiesce() (rounds int, bad string, err error) {
	stable := 0
	last := ""
	for round := 1; round <= 9; round++ {
		if err := v.drainClients(); err != nil {
			return round, "", err
		}
		if err := v.forceRescan(); err != nil {
			return round, "", err
		}
		// clients constructed during this round may still have edge points queued from before their
		// construction (the manager subscribes first); their barrier marker goes behind those
		if err := v.drainClients(); err != nil {
			return round, "", err
		}
		// ... and a client that was told to stop meanwhile is on its way out: judge when it is gone
		if err := v.waitStopped(); err != nil {
			return round, "", err
		}
		last = v.invariantI2()
		if last == "" {
			stable++
			if stable == 3 {
				return round - 2, "", nil
			}
		} else {
			if stable > 0 {
				return round, "held and then broke again: " + last, nil
			}
			if round >= 6 {
				return round, last, nil
			}
		}
	}
	return 9, last, nil
}

func runC07(tier string, _ []string) int {
	c := vlib.NewCtx("C07", tier, "exploration")
	vlib.SetPortBlock(7)
	c.SetRule("per case a fresh instance and a real client.Manager for an instrumented client type (vNode, children vChild, parent types group + vParent) registered through the public API; a PRNG history of ~15 operations (create vNode under root / group / nested group / vParent, add and remove vChild, delete and undelete vNodes and the groups holding them, mirror (of managed nodes and of the groups holding them), move, point updates, a vNode created with an undecodable configuration that is then corrected, delete / unrelated creation / undelete in quick succession, a deletion carried twice in one request, a vNode whose configuration stays undecodable (nothing is demanded for it, everything for the others)) with 0-40 ms delays injected into the client's Run start / return and at the manager.beforeConstruct / cs.afterStop hook sites; after operations the harness forces a rescan (creating an unrelated node) and waits, in logical steps, for a scan that began afterwards; invariants: I1 never two clients of one placement at once (whole event log), I2 running set == live configured placements with children as constructed == live children (within 6 forced rescans, then stable for 2 more), I3 Manager.Stop stops every client and Run returns (in a quarter of the histories Stop comes right after the last operation, during the scans and restarts it caused). One more manager starts on existing data and is left alone after an undeletion and the deletion of a group: its periodic rescan (one minute without events) must bring the clients in line within 110 s. distinct = (operation kinds in the history, rounds needed, number of placements)")
	c.Assume("the instrumented client's Run returns promptly when Stop is called; for a node whose configuration stays undecodable nothing is demanded (the property does not say what should run for it)")
	nHist := c.N(100, 600)
	maxDelay := 40
	wd := c.NewWatchdog()
	// ---- a manager that starts on existing data and is then left alone: changes that do not by
	// themselves make it look (an undeletion, the deletion of a group that holds a managed node) are
	// picked up by its periodic rescan (every minute without events); nothing forces a rescan here
	patient := make(chan string, 1)
	go func() {
		r := vlib.NewR(c.Seed, "c07patient", 0)
		var x, y, grp string
		v, err := startVMWith(c, wd, 9000, r, 0, func(d *gdriver) error {
			mk := func(parent, typ string) (string, error) {
				id := d.newID()
				if e, err := d.sendNode(id, data.Points{{Type: "description", Time: d.now(), Text: "p " + id, Origin: "harness"}, {Type: "port", Time: d.now(), Value: 7, Origin: "harness"}}); err != nil || e != "" {
					return id, fmt.Errorf("%v %s", err, e)
				}
				if e, err := d.sendEdge(id, parent, data.Points{{Type: data.PointTypeTombstone, Time: d.now()}, {Type: data.PointTypeNodeType, Text: typ}}); err != nil || e != "" {
					return id, fmt.Errorf("%v %s", err, e)
				}
				d.Made = append(d.Made, id)
				return id, nil
			}
			var err error
			if x, err = mk(d.g.Root, "vNode"); err != nil {
				return err
			}
			if grp, err = mk(d.g.Root, "group"); err != nil {
				return err
			}
			if y, err = mk(grp, "vNode"); err != nil {
				return err
			}
			if e, err := d.sendEdge(x, d.g.Root, data.Points{{Type: data.PointTypeTombstone, Time: d.now(), Value: 1}}); err != nil || e != "" {
				return fmt.Errorf("%v %s", err, e)
			}
			return nil
		})
		if err != nil {
			c.Inconclusive("patient case: " + err.Error())
			patient <- ""
			return
		}
		defer v.close()
		d := v.d
		waitFor := func(what string, limit time.Duration, okf func(map[string][]vEvent) bool) string {
			deadline := time.Now().Add(limit)
			for time.Now().Before(deadline) {
				if okf(runningClients(v.mon.snapshot())) {
					return ""
				}
				time.Sleep(50 * time.Millisecond)
			}
			return what
		}
		rootKey := func(id string) string { return d.g.Root + "/" + id }
		// the start-up scan: a client for y (in the group), none for the deleted x
		if bad := waitFor("start-up scan", 30*time.Second, func(run map[string][]vEvent) bool { return len(run[grp+"/"+y]) == 1 && len(run[rootKey(x)]) == 0 }); bad != "" {
			patient <- "a manager started on existing data did not reach the expected clients within 30 s (one for the node in the group, none for the deleted node)"
			return
		}
		// now x comes back and the group goes away; nothing else happens
		if e, err := d.sendEdge(x, d.g.Root, data.Points{{Type: data.PointTypeTombstone, Time: d.now(), Value: 0}}); err != nil || e != "" {
			c.Inconclusive(fmt.Sprintf("patient case: undeletion not accepted (%v %q)", err, e))
			patient <- ""
			return
		}
		if e, err := d.sendEdge(grp, d.g.Root, data.Points{{Type: data.PointTypeTombstone, Time: d.now(), Value: 1}}); err != nil || e != "" {
			c.Inconclusive(fmt.Sprintf("patient case: group deletion not accepted (%v %q)", err, e))
			patient <- ""
			return
		}
		if bad := waitFor("periodic rescan", 110*time.Second, func(run map[string][]vEvent) bool { return len(run[rootKey(x)]) == 1 && len(run[grp+"/"+y]) == 0 }); bad != "" {
			run := runningClients(v.mon.snapshot())
			patient <- fmt.Sprintf("110 s after an undeletion and the deletion of a group (no other events): %d clients for the undeleted node %s, %d for node %s inside the deleted group; the manager rescans every minute", len(run[rootKey(x)]), x, len(run[grp+"/"+y]), y)
			return
		}
		c.Count("changes_picked_up_by_the_periodic_rescan", 1)
		patient <- ""
	}()
	vlib.Parallel(nHist, 6, func(i int) {
		r := vlib.NewR(c.Seed, "c07", i)
		v, err := startVM(c, wd, i, r, maxDelay)
		if err != nil {
			c.Inconclusive(err.Error())
			return
		}
		defer v.close()
		d := v.d
		g := d.g
		mkNode := func(parent, typ string, pts data.Points) (string, error) {
			id := d.newID()
			if len(pts) > 0 && r.Chance(0.5) {
				if e, err := d.sendNode(id, pts); err != nil || e != "" {
					return id, fmt.Errorf("node points refused: %v %s", err, e)
				}
				pts = nil
			}
			if e, err := d.sendEdge(id, parent, data.Points{{Type: data.PointTypeTombstone, Time: d.now()}, {Type: data.PointTypeNodeType, Text: typ}}); err != nil || e != "" {
				return id, fmt.Errorf("edge refused: %v %s", err, e)
			}
			if len(pts) > 0 {
				if e, err := d.sendNode(id, pts); err != nil || e != "" {
					return id, fmt.Errorf("node points refused: %v %s", err, e)
				}
			}
			d.Made = append(d.Made, id)
			return id, nil
		}
		vnodePoints := func() data.Points {
			return data.Points{
				{Type: "description", Time: d.now(), Text: "vn " + r.Ident(3), Origin: "harness"},
				{Type: "port", Time: d.now(), Value: float64(r.Intn(65000)), Origin: "harness"},
				{Type: "tag", Key: "0", Time: d.now(), Text: "t0", Origin: "harness"},
				{Type: "tag", Key: "1", Time: d.now(), Text: "t1", Origin: "harness"},
			}
		}
		ofType := func(ts ...string) []string {
			var out []string
			for _, n := range d.Made {
				for _, t := range ts {
					if g.Types[n] == t {
						out = append(out, n)
					}
				}
			}
			return out
		}
		pick := func(xs []string) string {
			if len(xs) == 0 {
				return ""
			}
			return xs[r.Intn(len(xs))]
		}
		kinds := map[string]bool{}
		nOps := 10 + r.Intn(12)
		if i%10 == 3 {
			// bulky neighbours: nodes of a type the manager has nothing to do with, next to the ones it manages,
			// holding more data than one bus message can carry (five times 250 KiB below the root, five more
			// below a group)
			blob := strings.Repeat("0123456789abcdef", 16*1024)
			bg, err := mkNode(g.Root, "group", nil)
			for q := 0; q < 10 && err == nil; q++ {
				parent := g.Root
				if q >= 5 {
					parent = bg
				}
				_, err = mkNode(parent, "blob", data.Points{{Type: "payload", Time: d.now(), Text: blob[:250*1024+q], Origin: "harness"}})
			}
			if err != nil {
				c.Violate("store:legal-write-refused", "bulky neighbours: "+err.Error(), v.wit(nil))
				return
			}
			c.Count("histories_with_bulky_neighbours", 1)
		}
		// in a quarter of the histories the manager is stopped right after the last operation, while
		// scans, constructions and restarts caused by it may still be under way
		stopMidway := r.Chance(0.25)
		// always start with something to manage
		scenario := i % 5
		var opErr error
		for k := 0; k < nOps && opErr == nil; k++ {
			op := ""
			containers := append([]string{g.Root}, ofType("group", "vParent")...)
			vnodes := ofType("vNode")
			roll := r.Intn(100)
			switch {
			case k == 0 && scenario == 0:
				// the only client sits in a group that is then deleted
				op = "only-client-in-group"
				grp, err := mkNode(g.Root, "group", nil)
				opErr = err
				if opErr == nil {
					_, opErr = mkNode(grp, "vNode", vnodePoints())
				}
				if opErr == nil {
					if _, b, err := v.quiesce(); err != nil || b != "" {
						if err != nil {
							c.Inconclusive(err.Error())
						} else {
							c.Violate("manager:running-set-wrong:"+op, b, v.wit(nil))
						}
						return
					}
					e, err := d.sendEdge(grp, g.Root, data.Points{{Type: data.PointTypeTombstone, Time: d.now(), Value: 1}})
					if err != nil || e != "" {
						opErr = fmt.Errorf("delete group: %v %s", err, e)
					}
				}
			case (k == 1 && scenario == 1) || (roll >= 96 && len(containers) >= 2):
				// a node whose configuration cannot be decoded at first (no client can be built for it)
				// and is then corrected by an ordinary point write: from then on it is a live configured node
				op = "undecodable-then-corrected"
				bad := append(vnodePoints(), data.Point{Type: "chan", Time: d.now(), Value: []float64{-1, 256, 1e9}[r.Intn(3)], Origin: "harness"})
				var n string
				n, opErr = mkNode(pick(containers), "vNode", bad)
				if opErr == nil && r.Chance(0.7) {
					// let the manager meet the undecodable node in at least one scan
					if err := v.forceRescan(); err != nil {
						c.Inconclusive(err.Error())
						return
					}
				}
				if opErr == nil {
					e, err := d.sendNode(n, data.Points{{Type: "chan", Time: d.now(), Value: float64(r.Intn(256)), Origin: "harness"}})
					if err != nil || e != "" {
						opErr = fmt.Errorf("correcting point refused: %v %s", err, e)
					}
				}
			case k == 2 && scenario == 2:
				// a node whose configuration cannot be decoded and stays that way: whatever happens to it, the
				// other nodes (created before and after it, beside it and inside groups) keep getting their clients
				op = "undecodable-stays"
				bad := append(vnodePoints(), data.Point{Type: "chan", Time: d.now(), Value: []float64{-1, 256, 1e9}[r.Intn(3)], Origin: "harness"})
				var n string
				n, opErr = mkNode(pick(containers), "vNode", bad)
				if opErr == nil {
					if v.undecodable == nil {
						v.undecodable = map[string]bool{}
					}
					v.undecodable[n] = true
				}
			case roll >= 84 && roll < 88 && len(vnodes) > 0:
				// one request that carries the deletion twice, the effective point not being the first one
				op = "delete-with-two-tombstones"
				n := pick(vnodes)
				if kidsAll := ofType("vChild"); len(kidsAll) > 0 && r.Chance(0.6) {
					n = pick(kidsAll) // a child of a client's node is removed that way
				}
				ps := g.Parents(n, false)
				if len(ps) == 0 {
					continue
				}
				p := ps[r.Intn(len(ps))]
				t1, t2 := d.now(), d.now()
				pts := data.Points{{Type: data.PointTypeTombstone, Time: t1, Value: 0, Origin: "harness"}, {Type: data.PointTypeTombstone, Time: t2, Value: 1, Origin: "harness"}}
				if r.Chance(0.5) {
					// (or the restoring point last in the batch but older)
					pts = data.Points{{Type: data.PointTypeTombstone, Time: t2, Value: 1, Origin: "harness"}, {Type: data.PointTypeTombstone, Time: t1, Value: 0, Origin: "harness"}}
				}
				e, err := d.sendEdge(n, p, pts)
				if err != nil || e != "" {
					opErr = fmt.Errorf("double tombstone: %v %s", err, e)
				}
			case roll >= 88 && roll < 92 && len(containers) >= 3:
				// a group (with whatever it holds) becomes reachable along a second path: the placements of the
				// managed nodes inside it stay the same
				op = "mirror-container"
				grp, np := pick(containers[1:]), pick(containers)
				if grp == np || g.HasEdge(np, grp) || g.WouldCycle(grp, np) {
					continue
				}
				e, err := d.sendEdge(grp, np, data.Points{{Type: data.PointTypeTombstone, Time: d.now()}, {Type: data.PointTypeNodeType, Text: g.Types[grp]}})
				if err != nil || e != "" {
					opErr = fmt.Errorf("mirror container: %v %s", err, e)
				}
			case roll >= 92 && roll < 96 && len(vnodes) > 0:
				// a node is deleted, something unrelated makes the manager scan while the old client is still
				// on its way out, and the node comes back at once
				op = "delete-scan-undelete"
				n := pick(vnodes)
				ps := g.Parents(n, false)
				if len(ps) == 0 {
					continue
				}
				p := ps[r.Intn(len(ps))]
				e, err := d.sendEdge(n, p, data.Points{{Type: data.PointTypeTombstone, Time: d.now(), Value: 1, Origin: "harness"}})
				if err == nil && e == "" {
					_, err = mkNode(g.Root, "tforce", nil)
				}
				if err == nil && e == "" {
					e, err = d.sendEdge(n, p, data.Points{{Type: data.PointTypeTombstone, Time: d.now(), Value: 0, Origin: "harness"}})
				}
				if err != nil || e != "" {
					opErr = fmt.Errorf("delete-scan-undelete: %v %s", err, e)
				}
			case roll < 14 || len(containers) < 2:
				op = "create-container"
				_, opErr = mkNode(pick(containers), []string{"group", "vParent"}[r.Intn(2)], nil)
			case roll < 34 || len(vnodes) == 0:
				op = "create-vnode"
				_, opErr = mkNode(pick(containers), "vNode", vnodePoints())
			case roll < 46:
				op = "add-child"
				_, opErr = mkNode(pick(vnodes), "vChild", data.Points{{Type: "description", Time: d.now(), Text: "kid", Origin: "harness"}})
			case roll < 54:
				kidsAll := ofType("vChild")
				if len(kidsAll) == 0 {
					continue
				}
				op = "remove-or-restore-child"
				kid := pick(kidsAll)
				p := g.Parents(kid, true)[0]
				val := 1.0
				if g.Deleted(p, kid) {
					val = 0
				}
				e, err := d.sendEdge(kid, p, data.Points{{Type: data.PointTypeTombstone, Time: d.now(), Value: val, Origin: "harness"}})
				if err != nil || e != "" {
					opErr = fmt.Errorf("child tombstone: %v %s", err, e)
				}
			case roll < 68:
				op = "delete-or-undelete"
				n := pick(append(append([]string{}, vnodes...), ofType("group", "vParent")...))
				ps := g.Parents(n, true)
				p := ps[r.Intn(len(ps))]
				val := 1.0
				if g.Deleted(p, n) {
					val = 0
				}
				if val == 0 {
					op = "undelete"
				}
				e, err := d.sendEdge(n, p, data.Points{{Type: data.PointTypeTombstone, Time: d.now(), Value: val, Origin: "harness"}})
				if err != nil || e != "" {
					opErr = fmt.Errorf("tombstone: %v %s", err, e)
				}
			case roll < 78:
				op = "mirror"
				n, np := pick(vnodes), pick(containers)
				if g.HasEdge(np, n) || g.WouldCycle(n, np) {
					continue
				}
				e, err := d.sendEdge(n, np, data.Points{{Type: data.PointTypeTombstone, Time: d.now()}, {Type: data.PointTypeNodeType, Text: "vNode"}})
				if err != nil || e != "" {
					opErr = fmt.Errorf("mirror: %v %s", err, e)
				}
			case roll < 86:
				op = "move"
				n, np := pick(vnodes), pick(containers)
				ps := g.Parents(n, false)
				if len(ps) == 0 || g.HasEdge(np, n) || g.WouldCycle(n, np) {
					continue
				}
				e, err := d.sendEdge(n, np, data.Points{{Type: data.PointTypeTombstone, Time: d.now()}, {Type: data.PointTypeNodeType, Text: "vNode"}})
				if err == nil && e == "" {
					e, err = d.sendEdge(n, ps[0], data.Points{{Type: data.PointTypeTombstone, Time: d.now(), Value: 1}})
				}
				if err != nil || e != "" {
					opErr = fmt.Errorf("move: %v %s", err, e)
				}
			default:
				op = "point-update"
				n := pick(vnodes)
				e, err := d.sendNode(n, data.Points{{Type: "port", Time: d.now(), Value: float64(r.Intn(1000)), Origin: []string{"harness", ""}[r.Intn(2)]}})
				if err != nil || e != "" {
					opErr = fmt.Errorf("point update: %v %s", err, e)
				}
			}
			if opErr != nil {
				break
			}
			kinds[op] = true
			v.mon.mark("op-done " + op)
			c.Eval(1)
			if r.Chance(0.4) || (k == nOps-1 && !stopMidway) || op == "only-client-in-group" {
				rounds, bad, err := v.quiesce()
				if err != nil {
					c.Inconclusive(err.Error())
					return
				}
				c.Count("quiescent_evaluations", 1)
				if bad != "" {
					c.Violate("manager:running-set-wrong:after-"+op, fmt.Sprintf("after %d forced rescans: %s", rounds, bad), v.wit(nil))
					return
				}
				if ov := overlapViolation(v.mon.snapshot()); ov != "" {
					c.Violate("manager:two-clients-for-one-placement", ov, v.wit(nil))
					return
				}
				c.Distinct(fmt.Sprintf("%s rounds=%d placements=%d", op, rounds, len(v.expectedPlacements())))
			}
		}
		if opErr != nil {
			c.Violate("store:legal-write-refused", opErr.Error(), v.wit(nil))
			return
		}
		// I3: stop the manager
		v.mgr.Stop(nil)
		done := wd.Watch("manager:stop-does-not-return", v.wit(nil), 90*time.Second, true)
		<-v.done
		done()
		evs := v.mon.snapshot()
		if ov := overlapViolation(evs); ov != "" {
			c.Violate("manager:two-clients-for-one-placement", ov, v.wit(nil))
			return
		}
		if left := runningClients(evs); len(left) > 0 {
			var ks []string
			for k := range left {
				ks = append(ks, k)
			}
			c.Violate("manager:client-left-running-after-stop", fmt.Sprintf("Manager.Run returned but clients for %v never returned from Run", ks), v.wit(nil))
			return
		}
		constructed, started := 0, 0
		for _, e := range evs {
			if e.Kind == "construct" {
				constructed++
			}
			if e.Kind == "run-start" {
				started++
			}
		}
		if constructed != started && !stopMidway {
			c.Violate("manager:constructed-client-never-run", fmt.Sprintf("%d clients constructed, %d run", constructed, started), v.wit(nil))
			return
		}
		c.Count("clients_constructed", int64(constructed))
		c.Count("manager_stops_checked", 1)
		if stopMidway {
			c.Count("manager_stops_during_activity", 1)
		}
		if i < 2 {
			c.Sample(map[string]any{"ops": d.Log[:min(len(d.Log), 10)], "kinds": keysOf(kinds), "clients": constructed})
		}
	})
	if res := <-patient; res != "" {
		c.Violate("manager:running-set-wrong:without-forced-rescan", res, map[string]any{"seed": c.Seed})
	}
	c.Require("quiescent_evaluations", 20)
	c.Require("clients_constructed", 20)
	c.Require("manager_stops_checked", 5)
	return c.Finish()
}
