package checks

import (
	"errors"
	"fmt"
	"io"
	"math"
	"math/rand"
	"net"
	"os"
	"sort"
	"strings"
	"sync"
	"sync/atomic"
	"time"

	"github.com/simpleiot/simpleiot/modbus"

	"verifharness/internal/vlib"
)

func init() { Registry["C19"] = runC19 }

// pktPipe is one direction of a packet-preserving in-memory link: every Write
// is one packet; a Read returns (part of) one packet, never bytes of two.
type pktPipe struct {
	mu     sync.Mutex
	cond   *sync.Cond
	q      [][]byte
	closed bool
}

func newPktPipe() *pktPipe { p := &pktPipe{}; p.cond = sync.NewCond(&p.mu); return p }

type pktEnd struct {
	rx, tx  *pktPipe
	timeout time.Duration // 0 = block until closed
	// mangle, if set, may alter a packet about to be delivered to this end
	mangle func([]byte) []byte
}

var errPktTimeout = errors.New("read timeout")

func (e *pktEnd) Read(b []byte) (int, error) {
	p := e.rx
	p.mu.Lock()
	defer p.mu.Unlock()
	var timer *time.Timer
	expired := false
	if e.timeout > 0 {
		timer = time.AfterFunc(e.timeout, func() { p.mu.Lock(); expired = true; p.cond.Broadcast(); p.mu.Unlock() })
		defer timer.Stop()
	}
	for len(p.q) == 0 {
		if p.closed {
			return 0, io.EOF
		}
		if expired {
			return 0, errPktTimeout
		}
		p.cond.Wait()
	}
	pk := p.q[0]
	n := copy(b, pk)
	if n < len(pk) {
		p.q[0] = pk[n:]
	} else {
		p.q = p.q[1:]
	}
	return n, nil
}

func (e *pktEnd) Write(b []byte) (int, error) {
	pk := append([]byte{}, b...)
	p := e.tx
	p.mu.Lock()
	defer p.mu.Unlock()
	if p.closed {
		return 0, io.ErrClosedPipe
	}
	p.q = append(p.q, pk)
	p.cond.Broadcast()
	return len(b), nil
}

func (e *pktEnd) Close() error {
	for _, p := range []*pktPipe{e.rx, e.tx} {
		p.mu.Lock()
		p.closed = true
		p.cond.Broadcast()
		p.mu.Unlock()
	}
	return nil
}

// mangling reader wrapper for the client side: alters the next response
type mangler struct {
	io.ReadWriteCloser
	mu sync.Mutex
	f  func([]byte) []byte
}

func (m *mangler) Read(b []byte) (int, error) {
	n, err := m.ReadWriteCloser.Read(b)
	m.mu.Lock()
	f := m.f
	m.f = nil
	m.mu.Unlock()
	if err == nil && f != nil {
		out := f(append([]byte{}, b[:n]...))
		n = copy(b, out)
	}
	return n, err
}

// net.Conn mangler for TCP
type connMangler struct {
	net.Conn
	mu      sync.Mutex
	f       func([]byte) []byte
	hold    bool   // withhold the next reply (the client sees a timeout) ...
	stashed []byte // ... and hand it over on the following read (a late reply)
}

func (m *connMangler) Read(b []byte) (int, error) {
	m.mu.Lock()
	if m.stashed != nil {
		n := copy(b, m.stashed)
		m.stashed = nil
		m.mu.Unlock()
		return n, nil
	}
	hold := m.hold
	m.hold = false
	m.mu.Unlock()
	if hold {
		n, err := m.Conn.Read(b)
		if err == nil {
			m.mu.Lock()
			m.stashed = append([]byte{}, b[:n]...)
			m.mu.Unlock()
			return 0, os.ErrDeadlineExceeded
		}
		return n, err
	}
	n, err := m.Conn.Read(b)
	m.mu.Lock()
	f := m.f
	m.f = nil
	m.mu.Unlock()
	if err == nil && f != nil {
		out := f(append([]byte{}, b[:n]...))
		n = copy(b, out)
	}
	return n, err
}

type mbLink struct {
	kind    string
	client  *modbus.Client
	server  *modbus.Server
	regs    *modbus.Regs
	model   *mbModel
	unit    byte
	setM    func(func([]byte) []byte)
	setHold func()
	errs    *int64
	mu      *sync.Mutex
	srvErr  *[]string
	close   func()
}

func newMbLink(r *vlib.R, kind string, spec mbMapSpec, unit byte) *mbLink {
	return newMbLinkOn(r, kind, spec, unit, nil)
}

// newMbLinkOn builds a client/server pair; with shared != nil the server works on that register file
// (several servers on one register file = several masters talking to one device).
func newMbLinkOn(r *vlib.R, kind string, spec mbMapSpec, unit byte, shared *modbus.Regs) *mbLink {
	var regs *modbus.Regs
	var model *mbModel
	if shared != nil {
		regs = shared
	} else {
		regs, model = buildRegs(r, mbMapSpec{Name: spec.Name, Ranges: spec.Ranges}) // no validators here
	}
	l := &mbLink{kind: kind, regs: regs, model: model, unit: unit, mu: &sync.Mutex{}, srvErr: &[]string{}}
	var ct, st modbus.Transport
	if kind == "rtu" {
		a2b, b2a := newPktPipe(), newPktPipe()
		cEnd := &pktEnd{rx: b2a, tx: a2b, timeout: 150 * time.Millisecond}
		sEnd := &pktEnd{rx: a2b, tx: b2a}
		m := &mangler{ReadWriteCloser: cEnd}
		l.setM = func(f func([]byte) []byte) { m.mu.Lock(); m.f = f; m.mu.Unlock() }
		ct, st = modbus.NewRTU(m), modbus.NewRTU(sEnd)
	} else {
		c1, c2 := net.Pipe()
		m := &connMangler{Conn: c1}
		l.setM = func(f func([]byte) []byte) { m.mu.Lock(); m.f = f; m.mu.Unlock() }
		l.setHold = func() { m.mu.Lock(); m.hold = true; m.mu.Unlock() }
		ct = modbus.NewTCP(m, 150*time.Millisecond, modbus.TransportClient)
		st = modbus.NewTCP(c2, 150*time.Millisecond, modbus.TransportServer)
	}
	l.client = modbus.NewClient(ct, 0)
	l.server = modbus.NewServer(unit, st, regs, 0)
	doneCh := make(chan struct{})
	go l.server.Listen(func(err error) {
		l.mu.Lock()
		*l.srvErr = append(*l.srvErr, err.Error())
		l.mu.Unlock()
	}, func() {}, func() { close(doneCh) })
	l.close = func() {
		_ = l.client.Close()
		go func() { _ = l.server.Close() }()
	}
	return l
}

func (l *mbLink) serverReg(a int) (uint16, bool) {
	v, err := l.regs.ReadReg(a)
	return v, err == nil
}

func (l *mbLink) serverCoil(n int) (bool, bool) {
	v, err := l.regs.ReadCoil(n)
	return v, err == nil
}

// fits tells whether a response with n payload bytes fits the client's 200 byte frame buffer.
func (l *mbLink) fits(payload int) bool {
	if l.kind == "rtu" {
		return 1+1+1+payload+2 <= 200
	}
	return 7+1+1+payload <= 200
}

var c19Maps = []mbMapSpec{
	{Name: "dense0-260", Ranges: [][2]int{{0, 260}}},
	{Name: "sparse", Ranges: [][2]int{{0, 1}, {8, 2}, {100, 3}, {0x7fff, 2}, {0xffff, 1}}},
	{Name: "top-of-space", Ranges: [][2]int{{0xff80, 128}, {0, 130}}},
	{Name: "coil-top", Ranges: [][2]int{{3960, 136}, {0, 4}}},
}

func runC19(tier string, _ []string) int {
	c := vlib.NewCtx("C19", tier, "exploration")
	c.SetRule("real modbus.Client <-> real modbus.Server.Listen over (a) RTU framing on a packet-preserving in-memory duplex and (b) TCP framing on net.Pipe; 4 register maps with PRNG contents; every client method (ReadCoils, ReadDiscreteInputs, ReadHoldingRegs, ReadInputRegs, WriteSingleCoil, WriteSingleReg) x addresses (map edges, unmapped, 0xFFFF) x counts 1..largest fitting the client's 200-byte frame (success required, values and number of values compared with the server's registers) and beyond up to the protocol maximum on fresh pairs (error or correct values, never wrong ones) x unit ids; write then read back through the client and directly from the register file; a man-in-the-middle alters responses: 1-bit / 2-bit / <=16-bit-burst CRC damage (RTU), truncation at every length, wrong transaction id (TCP) => the call must fail; a withheld reply delivered late (TCP) must not answer the next request; 70000 consecutive TCP transactions (id wrap); conversions: all 2^16 register values, sampled 32-bit patterns incl. NaNs, both word orders, bit-exact in both directions. conversions of 2-6 element slices element by element; one client/server pair talks RTU over a byte-stream line read through respreader (100 ms / 20 ms, as node/modbus.go): plain traffic, then replies that arrive 0.4 s late (two in a row; one of 205 bytes) followed by 0.8 s of silence - the next request must get its own answer; a TCPServer with 2-4 open connections is closed and replaced on its port by one with another register file: what an old connection returns afterwards is an error or what the running server holds; the register file is extended while in use by registering existing registers and coils again; one TCP connection stays idle for 30 s (over a hundred rounds of read timeout + back-off in the server) and must then be served as before. distinct = (transport, method, count class, outcome) Finally several masters on one register file: 3-6 client/server pairs (TCP and RTU) share one modbus.Regs; every connection writes coils only it owns (interleaved with the other connections' coils inside the same 16-bit registers) and its own register, reads each back after the acknowledgement and all are compared at rest.")
	c.Assume("the in-memory duplex delivers whole packets (as respreader does on a serial line); reads time out after 150 ms")
	wd := c.NewWatchdog()
	vlib.SetPortBlock(19)
	nPairs := c.N(24, 400)
	callsPer := c.N(340, 1000)

	// a connection that stays open and idle while the rest of the check runs (30 s = more than a hundred rounds
	// of the server transport's 150 ms read timeouts): it must serve the next request like the first
	idleRes := make(chan string, 1)
	go func() {
		r := vlib.NewR(c.Seed, "c19idle", 0)
		l := newMbLink(r, "tcp", c19Maps[0], 1)
		defer l.close()
		var addr int = -1
		for a := range l.model.regs {
			addr = int(a)
			break
		}
		if addr < 0 {
			idleRes <- ""
			return
		}
		if _, err := l.client.ReadHoldingRegs(1, uint16(addr), 1); err != nil {
			idleRes <- "" // not the subject here
			return
		}
		time.Sleep(30 * time.Second)
		for try := 0; try < 3; try++ {
			v := uint16(0xbe00 + try)
			if err := l.client.WriteSingleReg(1, uint16(addr), v); err != nil {
				idleRes <- fmt.Sprintf("after 30 s without traffic on an open TCP connection: WriteSingleReg: %v", err)
				return
			}
			got, err := l.client.ReadHoldingRegs(1, uint16(addr), 1)
			if err != nil || len(got) != 1 || got[0] != v {
				idleRes <- fmt.Sprintf("after 30 s without traffic on an open TCP connection: wrote %d, read back %v %v", v, got, err)
				return
			}
			if sv, _ := l.regs.ReadReg(addr); sv != v {
				idleRes <- fmt.Sprintf("after 30 s without traffic: the write of %d was acknowledged but the server holds %d", v, sv)
				return
			}
		}
		idleRes <- ""
	}()
	lineRes := make(chan [2]string, 1)
	go func() {
		s, w := c19SerialLine(c)
		lineRes <- [2]string{s, w}
	}()
	vlib.Parallel(nPairs, 8, func(pi int) {
		r := vlib.NewR(c.Seed, "c19", pi)
		kind := []string{"rtu", "tcp"}[pi%2]
		spec := c19Maps[(pi/2)%len(c19Maps)]
		unit := byte(1 + r.Intn(247))
		if pi%7 == 0 {
			unit = []byte{0, 1, 247, 255}[r.Intn(4)]
		}
		l := newMbLink(r, kind, spec, unit)
		defer func() { l.close() }()
		fresh := func() {
			l.close()
			l = newMbLink(r, kind, spec, unit)
		}
		pickAddr := func(coil bool) int {
			rg := spec.Ranges[r.Intn(len(spec.Ranges))]
			a := rg[0] + r.Intn(rg[1]+2) - 1
			if r.Chance(0.1) {
				a = []int{0, 0xffff, 0xfffe, 0x8000, 4095, 4096}[r.Intn(6)]
			}
			if a < 0 {
				a = 0
			}
			if coil {
				a = (a*16 + r.Intn(16))
			}
			return a & 0xffff
		}
		for k := 0; k < callsPer; k++ {
			if k%40 == 33 && len(l.model.regs) > 0 {
				// the application registers IO that overlaps what is there already (a 32-bit value over two
				// existing registers, a second coil in an existing register): what is there stays as it is
				var mapped []int
				for a := range l.model.regs {
					mapped = append(mapped, int(a))
				}
				sort.Ints(mapped)
				a0 := mapped[r.Intn(len(mapped))]
				if r.Chance(0.5) {
					n := 1 + r.Intn(2)
					if a0+n <= 0x10000 {
						l.regs.AddReg(a0, n)
						for q := 0; q < n; q++ {
							if _, ok := l.model.regs[uint16(a0+q)]; !ok {
								l.model.regs[uint16(a0+q)] = 0
							}
						}
					}
				} else {
					l.regs.AddCoil(a0*16 + r.Intn(16))
				}
				c.Count("registers_registered_again", 1)
			}
			if kind == "tcp" && k%40 == 20 {
				// a reply that arrives after the client gave up must not be taken for the answer to the next request
				var mapped []int
				for a := range l.model.regs {
					mapped = append(mapped, int(a))
				}
				if len(mapped) >= 2 {
					a1, a2 := mapped[r.Intn(len(mapped))], mapped[r.Intn(len(mapped))]
					_ = l.regs.WriteReg(a1, uint16(0x1100+k))
					_ = l.regs.WriteReg(a2, uint16(0x2200+k))
					l.model.regs[uint16(a1)], l.model.regs[uint16(a2)] = uint16(0x1100+k), uint16(0x2200+k)
					l.setHold()
					_, err1 := l.client.ReadHoldingRegs(unit, uint16(a1), 1)
					v2, err2 := l.client.ReadHoldingRegs(unit, uint16(a2), 1)
					c.Eval(2)
					wit := map[string]any{"pair": pi, "step": k, "transport": kind, "first_addr": a1, "second_addr": a2, "first_err": fmt.Sprint(err1), "second_err": fmt.Sprint(err2), "second_values": v2}
					if err1 == nil {
						c.Violate("modbus-e2e:withheld-reply-succeeded", "a read whose reply was withheld returned success", wit)
					} else if err2 == nil && a1 != a2 && (len(v2) != 1 || v2[0] != uint16(0x2200+k)) {
						c.Violate("modbus-e2e:late-reply-accepted", fmt.Sprintf("the late reply to an abandoned request (register %d) was returned as the answer to the next request (register %d): %v", a1, a2, v2), wit)
					}
					c.Distinct(fmt.Sprintf("tcp late-reply second=%v", err2 == nil))
					c.Count("late_reply_probes", 1)
					fresh()
				}
			}
			method := r.Intn(6)
			name := []string{"ReadCoils", "ReadDiscreteInputs", "ReadHoldingRegs", "ReadInputRegs", "WriteSingleCoil", "WriteSingleReg"}[method]
			coil := method <= 1 || method == 4
			addr := pickAddr(coil)
			var count int
			maxFit, protoMax := 97, 125
			if coil {
				maxFit, protoMax = 1560, 2000
			}
			if kind == "tcp" {
				if coil {
					maxFit = 1528
				} else {
					maxFit = 95
				}
			}
			switch r.Intn(6) {
			case 0:
				count = 1
			case 1:
				count = []int{maxFit - 1, maxFit, 8, 9, 16, 17, 12, 7}[r.Intn(8)]
			case 2:
				count = 1 + r.Intn(maxFit)
			case 3:
				count = maxFit + 1 + r.Intn(protoMax-maxFit)
			default:
				count = 1 + r.Intn(24)
			}
			if method >= 4 {
				count = 1
			}
			over := count > maxFit
			if over {
				fresh()
			}
			// damage for this transaction?
			dmg := ""
			if method <= 3 && !over && r.Chance(0.25) {
				dmg = []string{"bit1", "bit2", "burst", "truncate", "txid", "drop-last2"}[r.Intn(6)]
				if kind == "tcp" && (dmg == "bit1" || dmg == "bit2" || dmg == "burst" || dmg == "drop-last2") {
					dmg = []string{"truncate", "txid"}[r.Intn(2)]
				}
				if kind == "rtu" && dmg == "txid" {
					dmg = "bit1"
				}
			}
			var dmgDetail string
			if dmg != "" {
				l.setM(func(p []byte) []byte {
					nb := len(p) * 8
					switch dmg {
					case "bit1":
						b := r.Intn(nb)
						p[b/8] ^= 1 << uint(b%8)
						dmgDetail = fmt.Sprint("bit ", b)
					case "bit2":
						a, b := r.Intn(nb), r.Intn(nb)
						if a == b {
							b = (a + 1) % nb
						}
						p[a/8] ^= 1 << uint(a%8)
						p[b/8] ^= 1 << uint(b%8)
						dmgDetail = fmt.Sprint("bits ", a, b)
					case "burst":
						ln := 2 + r.Intn(15)
						if ln > nb {
							ln = nb
						}
						st := r.Intn(nb - ln + 1)
						// the RTU CRC is reflected: transmission order is LSB first
						flip := func(b int) { p[b/8] ^= 1 << uint(b%8) }
						flip(st)
						flip(st + ln - 1)
						for m := 1; m < ln-1; m++ {
							if r.Chance(0.5) {
								flip(st + m)
							}
						}
						dmgDetail = fmt.Sprint("burst ", st, ln)
					case "truncate":
						n := r.Intn(len(p))
						dmgDetail = fmt.Sprint("truncate to ", n)
						return p[:n]
					case "drop-last2":
						dmgDetail = "crc bytes dropped"
						if len(p) > 2 {
							return p[:len(p)-2]
						}
					case "txid":
						p[r.Intn(2)] ^= byte(1 + r.Intn(255))
						dmgDetail = "transaction id altered"
					}
					return p
				})
			}
			id := unit
			wrongUnit := false
			if dmg == "" && !over && r.Chance(0.01) {
				id = unit + 1
				wrongUnit = true
			}
			wit := map[string]any{"pair": pi, "step": k, "transport": kind, "map": spec.Name, "method": name, "unit": id, "server_unit": unit, "addr": addr, "count": count, "damage": dmg}
			done := wd.Watch("modbus-e2e:hang", wit, 60*time.Second, false)
			var bits []bool
			var vals []uint16
			var err error
			var wv uint16
			var wb bool
			var panicked any
			func() {
				defer func() { panicked = recover() }()
				switch method {
				case 0:
					bits, err = l.client.ReadCoils(id, uint16(addr), uint16(count))
				case 1:
					bits, err = l.client.ReadDiscreteInputs(id, uint16(addr), uint16(count))
				case 2:
					vals, err = l.client.ReadHoldingRegs(id, uint16(addr), uint16(count))
				case 3:
					vals, err = l.client.ReadInputRegs(id, uint16(addr), uint16(count))
				case 4:
					wb = r.Chance(0.5)
					err = l.client.WriteSingleCoil(id, uint16(addr), wb)
				case 5:
					wv = uint16(r.Intn(65536))
					err = l.client.WriteSingleReg(id, uint16(addr), wv)
				}
			}()
			done()
			l.setM(nil)
			c.Eval(1)
			wit["damage_detail"] = dmgDetail
			wit["err"] = fmt.Sprint(err)
			if panicked != nil {
				c.Violate("modbus-e2e:client-panic", fmt.Sprintf("%s panicked: %v", name, panicked), wit)
				fresh()
				continue
			}
			// what the server holds
			allMapped := true
			if addr+count > 65536 {
				allMapped = false
			}
			var wantBits []bool
			var wantVals []uint16
			for i := 0; i < count && allMapped; i++ {
				if coil {
					b, ok := l.serverCoil(addr + i)
					allMapped = allMapped && ok
					wantBits = append(wantBits, b)
				} else {
					v, ok := l.serverReg(addr + i)
					allMapped = allMapped && ok
					wantVals = append(wantVals, v)
				}
			}
			outcome := "error"
			if err == nil {
				outcome = "ok"
			}
			cls := "small"
			if over {
				cls = "oversize"
			} else if count >= maxFit-1 {
				cls = "maxfit"
			} else if count > 8 {
				cls = "multi"
			}
			switch {
			case dmg != "" && dmgDetail != "":
				if err == nil {
					sig := "modbus-e2e:damaged-frame-accepted:" + dmg
					c.Violate(sig, fmt.Sprintf("%s succeeded although the response frame was damaged (%s)", name, dmgDetail), wit)
				}
				if kind == "tcp" || dmg == "truncate" || dmg == "drop-last2" {
					fresh() // stream may be out of step now
				}
			case wrongUnit:
				if err == nil {
					c.Violate("modbus-e2e:answered-foreign-unit", "a request addressed to another unit id was answered", wit)
				}
				if kind == "tcp" {
					fresh()
				}
			case method <= 3:
				if err == nil {
					bad := ""
					if coil {
						if len(bits) != count {
							bad = fmt.Sprintf("%d values returned for %d coils", len(bits), count)
						} else if !allMapped {
							bad = "values returned for unmapped coils"
						} else {
							for i := range bits {
								if bits[i] != wantBits[i] {
									bad = fmt.Sprintf("coil %d: got %v, server holds %v", addr+i, bits[i], wantBits[i])
									break
								}
							}
						}
					} else {
						if len(vals) != count {
							bad = fmt.Sprintf("%d values returned for %d registers", len(vals), count)
						} else if !allMapped {
							bad = "values returned for unmapped registers"
						} else {
							for i := range vals {
								if vals[i] != wantVals[i] {
									bad = fmt.Sprintf("register %d: got %d, server holds %d", addr+i, vals[i], wantVals[i])
									break
								}
							}
						}
					}
					if bad != "" {
						sig := "modbus-e2e:wrong-values"
						if coil && len(bits) != count {
							sig = "modbus-e2e:read-bits-wrong-count"
						}
						if over {
							sig += ":oversize"
						}
						wit["got_bits"], wit["got_vals"] = bits, vals
						c.Violate(sig, name+": "+bad, wit)
					}
				} else if allMapped && !over {
					c.Violate("modbus-e2e:valid-read-failed", fmt.Sprintf("%s of %d mapped values that fit a frame failed: %v", name, count, err), wit)
					fresh()
				}
				if over {
					fresh()
				}
			case method == 4:
				reg := addr / 16
				old, mapped := l.model.regs[uint16(reg)]
				if mapped {
					nv := old
					if wb {
						nv |= 1 << uint(addr%16)
					} else {
						nv &^= 1 << uint(addr%16)
					}
					if err != nil {
						c.Violate("modbus-e2e:valid-write-failed", "WriteSingleCoil to a mapped coil failed: "+err.Error(), wit)
						fresh()
						continue
					}
					l.model.regs[uint16(reg)] = nv
					got, _ := l.serverReg(reg)
					back, rerr := l.client.ReadCoils(unit, uint16(addr), 1)
					if got != nv || rerr != nil || len(back) != 1 || back[0] != wb {
						c.Violate("modbus-e2e:write-not-visible", fmt.Sprintf("after WriteSingleCoil(%v): register file %d (want %d), read back %v %v", wb, got, nv, back, rerr), wit)
					}
				} else if err == nil {
					c.Violate("modbus-e2e:write-unmapped-succeeded", "WriteSingleCoil to an unmapped coil returned nil", wit)
				}
			case method == 5:
				_, mapped := l.model.regs[uint16(addr)]
				if mapped {
					if err != nil {
						c.Violate("modbus-e2e:valid-write-failed", "WriteSingleReg to a mapped register failed: "+err.Error(), wit)
						fresh()
						continue
					}
					l.model.regs[uint16(addr)] = wv
					got, _ := l.serverReg(addr)
					back, rerr := l.client.ReadHoldingRegs(unit, uint16(addr), 1)
					if got != wv || rerr != nil || len(back) != 1 || back[0] != wv {
						c.Violate("modbus-e2e:write-not-visible", fmt.Sprintf("after WriteSingleReg(%d): register file %d, read back %v %v", wv, got, back, rerr), wit)
					}
				} else if err == nil {
					c.Violate("modbus-e2e:write-unmapped-succeeded", "WriteSingleReg to an unmapped register returned nil", wit)
				}
			}
			// keep model in step with the real register file for written registers (cheap check)
			c.Distinct(fmt.Sprintf("%s %s %s dmg=%s mapped=%v -> %s", kind, name, cls, dmg, allMapped, outcome))
			c.Count("calls:"+outcome, 1)
			if dmg != "" && dmgDetail != "" {
				c.Count("damaged_frames", 1)
			}
			if pi == 0 && k < 3 {
				c.Sample(wit)
			}
		}
	})

	// ---- transaction id wrap: 70000 consecutive TCP transactions on one pair
	{
		r := vlib.NewR(c.Seed, "c19wrap", 0)
		l := newMbLink(r, "tcp", c19Maps[0], 1)
		n := c.N(70000, 140000)
		for i := 0; i < n; i++ {
			a := r.Intn(250)
			v, err := l.client.ReadHoldingRegs(1, uint16(a), 2)
			w0, _ := l.serverReg(a)
			w1, _ := l.serverReg(a + 1)
			c.Eval(1)
			if err != nil || len(v) != 2 || v[0] != w0 || v[1] != w1 {
				c.Violate("modbus-e2e:tcp-transaction-sequence", fmt.Sprintf("transaction %d failed or returned wrong values: %v %v (server %d %d)", i, v, err, w0, w1), map[string]any{"transaction": i})
				break
			}
			if i%5000 == 0 {
				_ = l.regs.WriteReg(a, uint16(i))
			}
		}
		c.Count("tcp_consecutive_transactions", int64(n))
		c.Distinct("tcp txid wrap")
		l.close()
	}

	// ---- conversions, bit exact
	{
		for v := 0; v < 65536; v++ {
			in := []uint16{uint16(v)}
			if got := modbus.RegsToInt16(in); len(got) != 1 || uint16(got[0]) != uint16(v) {
				c.Violate("modbus-conv:int16", "RegsToInt16 is not exact", map[string]any{"reg": v})
				break
			}
			if got := modbus.Uint16Array(modbus.PutUint16Array(uint16(v), uint16(^v))); len(got) != 2 || got[0] != uint16(v) || got[1] != uint16(^v) {
				c.Violate("modbus-conv:uint16array", "PutUint16Array/Uint16Array are not inverses", map[string]any{"reg": v})
				break
			}
			c.Eval(2)
		}
		c.Distinct("conv int16 exhaustive")
		n := c.N(300000, 3000000)
		r := vlib.NewR(c.Seed, "c19conv", 0)
		special := []uint32{0, 1, 0xffffffff, 0x80000000, 0x7fffffff, 0x7fc00000, 0x7f800001, 0xffc00001, 0x7f800000, 0xff800000, 0x0000ffff, 0xffff0000, 0x00010000, 0x12345678}
		for i := 0; i < n; i++ {
			var u uint32
			if i < len(special) {
				u = special[i]
			} else {
				u = r.Uint32()
			}
			hi, lo := uint16(u>>16), uint16(u)
			bad := ""
			chk := func(name string, ok bool) {
				if !ok && bad == "" {
					bad = name
				}
			}
			// uint32
			ru := modbus.Uint32ToRegs([]uint32{u})
			chk("Uint32ToRegs", len(ru) == 2 && ru[0] == hi && ru[1] == lo)
			chk("RegsToUint32", modbus.RegsToUint32(ru)[0] == u)
			rs := modbus.Uint32ToRegsSwapRegs([]uint32{u})
			chk("Uint32ToRegsSwapRegs", len(rs) == 2 && rs[0] == lo && rs[1] == hi)
			chk("RegsToUint32SwapWords", modbus.RegsToUint32SwapWords(rs)[0] == u)
			// int32
			iv := int32(u)
			ri := modbus.Int32ToRegs([]int32{iv})
			chk("Int32ToRegs", ri[0] == hi && ri[1] == lo)
			chk("RegsToInt32", modbus.RegsToInt32(ri)[0] == iv)
			ris := modbus.Int32ToRegsSwapWords([]int32{iv})
			chk("Int32ToRegsSwapWords", ris[0] == lo && ris[1] == hi)
			chk("RegsToInt32SwapWords", modbus.RegsToInt32SwapWords(ris)[0] == iv)
			// float32, by bits
			fv := math.Float32frombits(u)
			rf := modbus.Float32ToRegs([]float32{fv})
			chk("Float32ToRegs", rf[0] == hi && rf[1] == lo)
			chk("RegsToFloat32", math.Float32bits(modbus.RegsToFloat32(rf)[0]) == u)
			rfs := modbus.Float32ToRegsSwapWords([]float32{fv})
			chk("Float32ToRegsSwapWords", rfs[0] == lo && rfs[1] == hi)
			chk("RegsToFloat32SwapWords", math.Float32bits(modbus.RegsToFloat32SwapWords(rfs)[0]) == u)
			c.Eval(12)
			if bad != "" {
				c.Violate("modbus-conv:"+bad, bad+" is not exact / not an inverse", map[string]any{"bits": fmt.Sprintf("%08x", u)})
				break
			}
		}
		c.Distinct("conv 32-bit both word orders")
		// the same helpers on slices of 2-6 values: element k of the result belongs to element k of the input
		sbad := ""
		for q := 0; q < n/4 && sbad == ""; q++ {
			bad := ""
			m := 2 + r.Intn(5)
			us := make([]uint32, m)
			is := make([]int32, m)
			fs := make([]float32, m)
			for k := range us {
				us[k] = uint32(r.Uint64())
				if r.Chance(0.2) {
					us[k] = []uint32{0, 1, 0xffff, 0x10000, 0xffffffff, 0x80000000, 0x7fc00001}[r.Intn(7)]
				}
				is[k], fs[k] = int32(us[k]), math.Float32frombits(us[k])
			}
			eqF := func(a, b []float32) bool {
				if len(a) != len(b) {
					return false
				}
				for k := range a {
					if math.Float32bits(a[k]) != math.Float32bits(b[k]) {
						return false
					}
				}
				return true
			}
			ru, rus := modbus.Uint32ToRegs(us), modbus.Uint32ToRegsSwapRegs(us)
			chkS := func(name string, ok bool) {
				if !ok && bad == "" {
					bad = name + " (slice of " + fmt.Sprint(m) + ")"
				}
			}
			chkS("Uint32ToRegs length", len(ru) == 2*m && len(rus) == 2*m)
			for k := 0; k < m && bad == "" && len(ru) == 2*m && len(rus) == 2*m; k++ {
				chkS("Uint32ToRegs", ru[2*k] == uint16(us[k]>>16) && ru[2*k+1] == uint16(us[k]))
				chkS("Uint32ToRegsSwapWords", rus[2*k] == uint16(us[k]) && rus[2*k+1] == uint16(us[k]>>16))
			}
			chkS("RegsToUint32", fmt.Sprint(modbus.RegsToUint32(ru)) == fmt.Sprint(us))
			chkS("RegsToUint32SwapWords", fmt.Sprint(modbus.RegsToUint32SwapWords(rus)) == fmt.Sprint(us))
			chkS("RegsToInt32", fmt.Sprint(modbus.RegsToInt32(modbus.Int32ToRegs(is))) == fmt.Sprint(is))
			chkS("RegsToInt32SwapWords", fmt.Sprint(modbus.RegsToInt32SwapWords(modbus.Int32ToRegsSwapWords(is))) == fmt.Sprint(is))
			chkS("Int32ToRegs", fmt.Sprint(modbus.Int32ToRegs(is)) == fmt.Sprint(ru))
			chkS("Int32ToRegsSwapWords", fmt.Sprint(modbus.Int32ToRegsSwapWords(is)) == fmt.Sprint(rus))
			chkS("RegsToFloat32", eqF(modbus.RegsToFloat32(modbus.Float32ToRegs(fs)), fs))
			chkS("RegsToFloat32SwapWords", eqF(modbus.RegsToFloat32SwapWords(modbus.Float32ToRegsSwapWords(fs)), fs))
			chkS("Float32ToRegs", fmt.Sprint(modbus.Float32ToRegs(fs)) == fmt.Sprint(ru))
			chkS("Float32ToRegsSwapWords", fmt.Sprint(modbus.Float32ToRegsSwapWords(fs)) == fmt.Sprint(rus))
			c.Eval(12)
			if bad != "" {
				sbad = bad
				c.Violate("modbus-conv:"+strings.Fields(bad)[0], bad+" is not exact / not an inverse element by element", map[string]any{"values": fmt.Sprintf("%08x", us)})
			}
		}
		c.Distinct("conv 32-bit slices")
	}
	// ---- several masters on one register file: every acknowledged write is what a read returns, also
	// when other connections write neighbouring coils of the same 16-bit register at the same moment
	nShared := c.N(6, 60)
	for si := 0; si < nShared && !vlib.Aborted(); si++ {
		r := vlib.NewR(c.Seed, "c19shared", si)
		regs := &modbus.Regs{}
		regs.AddReg(0, 8) // coils 0..127 live in registers 0..7
		regs.AddReg(100, 8)
		nCl := 3 + r.Intn(4)
		var links []*mbLink
		for k := 0; k < nCl; k++ {
			links = append(links, newMbLinkOn(r, []string{"tcp", "rtu"}[(k+si)%2], c19Maps[0], 1, regs))
		}
		rounds := c.N(150, 400)
		var wg sync.WaitGroup
		var bad atomic.Value
		finalCoil := make([]map[uint16]bool, nCl)
		finalReg := make([]uint16, nCl)
		// a call that fails (the transports time out after 150 ms, which a loaded machine can exceed) is
		// not an acknowledgement: that connection stops and its coils are left out of the comparison
		failed := make([]bool, nCl)
		for k := range links {
			wg.Add(1)
			seed := r.Int63()
			go func(k int, l *mbLink) {
				defer wg.Done()
				cr := rand.New(rand.NewSource(seed))
				finalCoil[k] = map[uint16]bool{}
				for q := 0; q < rounds && bad.Load() == nil; q++ {
					if cr.Intn(4) == 0 {
						// the connection's own holding register
						v := uint16(1 + cr.Intn(65535))
						if err := l.client.WriteSingleReg(1, uint16(100+k), v); err != nil {
							failed[k] = true
							return
						}
						finalReg[k] = v
						got, err := l.client.ReadHoldingRegs(1, uint16(100+k), 1)
						if err != nil {
							failed[k] = true
							return
						}
						if len(got) != 1 || got[0] != v {
							bad.Store(fmt.Sprintf("connection %d wrote %d to register %d (acknowledged) and read back %v", k, v, 100+k, got))
							return
						}
						continue
					}
					// a coil only this connection writes; its neighbours in the register belong to the others
					coil := uint16(k + nCl*cr.Intn(100/nCl))
					v := cr.Intn(2) == 1
					if err := l.client.WriteSingleCoil(1, coil, v); err != nil {
						failed[k] = true
						return
					}
					finalCoil[k][coil] = v
					got, err := l.client.ReadCoils(1, coil, 1)
					if err != nil {
						failed[k] = true
						return
					}
					if len(got) != 1 || got[0] != v {
						bad.Store(fmt.Sprintf("connection %d wrote coil %d = %v (acknowledged) and read back %v while %d other connections wrote other coils", k, coil, v, got, nCl-1))
						return
					}
				}
			}(k, links[k])
		}
		wg.Wait()
		c.Eval(nCl * rounds)
		if b := bad.Load(); b == nil {
			for k := range links {
				if failed[k] {
					c.Count("shared_connections_stopped_by_a_failed_call", 1)
					continue
				}
				for coil, v := range finalCoil[k] {
					if got, err := regs.ReadCoil(int(coil)); err != nil || got != v {
						bad.Store(fmt.Sprintf("at rest: coil %d holds %v, the last acknowledged write (connection %d) was %v", coil, got, k, v))
					}
				}
				if got, err := regs.ReadReg(100 + k); err == nil && finalReg[k] != 0 && got != finalReg[k] {
					bad.Store(fmt.Sprintf("at rest: register %d holds %d, last acknowledged write %d", 100+k, got, finalReg[k]))
				}
			}
		}
		for _, l := range links {
			l.close()
		}
		if b := bad.Load(); b != nil {
			c.Violate("modbus-e2e:acknowledged-write-not-read-back:concurrent-masters", b.(string), map[string]any{"case": si, "seed": c.Seed, "connections": nCl})
			break
		}
		c.Count("shared_register_file_runs", 1)
		c.Distinct(fmt.Sprintf("shared register file, %d connections", nCl))
	}
	for round := 0; round < 4 && !vlib.Aborted(); round++ {
		if sg, w := c19ServerReplaced(c, round); sg != "" {
			c.Violate(sg, w, map[string]any{"seed": c.Seed, "stage": "TCP server replaced under open connections", "round": round})
			break
		}
	}
	if res := <-lineRes; res[0] != "" {
		c.Violate(res[0], res[1], map[string]any{"seed": c.Seed, "stage": "serial line through respreader"})
	}
	if res := <-idleRes; res != "" {
		c.Violate("modbus-e2e:idle-connection-not-served", res, map[string]any{"seed": c.Seed})
	} else {
		c.Count("idle_connection_served_after_30s", 1)
	}
	c.Require("calls:ok", 200)
	c.Require("calls:error", 50)
	c.Require("damaged_frames", 50)
	return c.Finish()
}
