package checks

import (
	"fmt"
	"sync/atomic"
	"time"

	"github.com/simpleiot/simpleiot/client"

	"verifharness/internal/vlib"
)

func init() { Registry["C14"] = runC14 }

type schedCfg struct {
	Start, End string
	sMin, eMin int
	Weekdays   []time.Weekday
	Dates      []string
}

// refActive is the definition in the property: exists day D in {date(t)-1,
// date(t)} (UTC), allowed by both filters, with t in [start@D, end@D(+1 if end<=start)).
func refActive(cfg schedCfg, t time.Time) bool {
	u := t.UTC()
	day0 := time.Date(u.Year(), u.Month(), u.Day(), 0, 0, 0, 0, time.UTC)
	for _, back := range []int{0, 1} {
		d := day0.AddDate(0, 0, -back)
		if len(cfg.Weekdays) > 0 {
			ok := false
			for _, w := range cfg.Weekdays {
				if d.Weekday() == w {
					ok = true
				}
			}
			if !ok {
				continue
			}
		}
		if len(cfg.Dates) > 0 {
			ok := false
			ds := d.Format("2006-01-02")
			for _, x := range cfg.Dates {
				if x == ds {
					ok = true
				}
			}
			if !ok {
				continue
			}
		}
		ws := d.Add(time.Duration(cfg.sMin) * time.Minute)
		we := d.Add(time.Duration(cfg.eMin) * time.Minute)
		if cfg.eMin <= cfg.sMin {
			we = we.AddDate(0, 0, 1)
		}
		if !u.Before(ws) && u.Before(we) {
			return true
		}
	}
	return false
}

func hhmm(r *vlib.R, m int) string {
	if m/60 < 10 && r.Chance(0.3) {
		return fmt.Sprintf("%d:%02d", m/60, m%60)
	}
	return fmt.Sprintf("%02d:%02d", m/60, m%60)
}

func runC14(tier string, _ []string) int {
	c := vlib.NewCtx("C14", tier, "exploration")
	c.SetRule("configs: PRNG (start,end) minute pairs incl. all boundary pairs (00:00/23:59/equal/adjacent/wrap), weekday subsets (all 128 reachable), date lists incl. month/year ends, Feb 29 and entries that name no calendar day (Feb 30, month 13, day 0); instants: every minute of a full week around an anchor (anchors: plain week, year end, leap day, month end) plus the seconds/nanoseconds around every window edge, each instant in UTC, +14:00, -12:00, +05:45 and -03:30; oracle = the day-D definition of the property, plus agreement across zones. distinct = (start<end | start==end | wrap, weekday filter size, date filter?, anchor); finally 400 instants in a jumbled order (all anchors, all zones) asked of ONE schedule value in a row. The process itself runs in a zone 13 h ahead of / 11 h behind UTC (or +05:45 / -09:30, by seed). End to end: rules with 1-3 schedule conditions run in a real rule client on an instance; the weekday list is written in the layouts a front end may use (all seven days, only the chosen days, a run of days from Sunday on, index 0 under a blank key; before the rule starts or while it runs), a sibling node sends about 90 trigger points carrying chosen instants (window edges +-1 ns, random minutes over ten days, in several zones), and after every processed trigger batch - those and the rule's own ten-second ticker's - each condition's active state (rule.batchDone hook site) must equal the definition for the instant the trigger carries")
	c.Assume("only strings of the form HH:MM / YYYY-MM-DD are generated (among the dates some that name no calendar day: they allow none)")
	// the host's own zone must not matter either: the process runs in one whose date differs from the UTC date
	// for half of the day
	hostZones := []*time.Location{time.FixedZone("host+13", 13*3600), time.FixedZone("host-11", -11*3600), time.FixedZone("host+0545", 5*3600+45*60), time.FixedZone("host-0930", -(9*3600 + 30*60))}
	time.Local = hostZones[int(c.Seed%4+4)%4]
	vlib.SetPortBlock(14)
	nCfg := c.N(150, 6000)
	zones := []*time.Location{time.UTC, time.FixedZone("p14", 14*3600), time.FixedZone("m12", -12*3600), time.FixedZone("p0545", 5*3600+45*60), time.FixedZone("m0330", -(3*3600 + 30*60))}
	anchors := []time.Time{
		time.Date(2023, 7, 16, 0, 0, 0, 0, time.UTC),  // plain week (Sunday)
		time.Date(2023, 12, 28, 0, 0, 0, 0, time.UTC), // year end
		time.Date(2024, 2, 26, 0, 0, 0, 0, time.UTC),  // leap day
		time.Date(2023, 2, 25, 0, 0, 0, 0, time.UTC),  // non-leap Feb end
		time.Date(2025, 4, 27, 0, 0, 0, 0, time.UTC),  // 30-day month end
		time.Date(1999, 12, 29, 0, 0, 0, 0, time.UTC), // century end
	}
	boundary := []int{0, 1, 59, 60, 61, 719, 720, 721, 1380, 1438, 1439}
	var evals int64
	vlib.Parallel(nCfg, 0, func(i int) {
		r := vlib.NewR(c.Seed, "c14", i)
		var cfg schedCfg
		switch r.Intn(4) {
		case 0:
			cfg.sMin, cfg.eMin = boundary[r.Intn(len(boundary))], boundary[r.Intn(len(boundary))]
		case 1:
			cfg.sMin = r.Intn(1440)
			cfg.eMin = (cfg.sMin + []int{0, 1, 1439, 2, 720}[r.Intn(5)]) % 1440
		default:
			cfg.sMin, cfg.eMin = r.Intn(1440), r.Intn(1440)
		}
		cfg.Start, cfg.End = hhmm(r, cfg.sMin), hhmm(r, cfg.eMin)
		anchor := anchors[i%len(anchors)]
		filt := r.Intn(4)
		if filt == 1 || filt == 3 {
			mask := 1 + r.Intn(127)
			for w := 0; w < 7; w++ {
				if mask&(1<<w) != 0 {
					cfg.Weekdays = append(cfg.Weekdays, time.Weekday(w))
				}
			}
			if r.Chance(0.3) { // order must not matter
				r.Shuffle(len(cfg.Weekdays), func(a, b int) { cfg.Weekdays[a], cfg.Weekdays[b] = cfg.Weekdays[b], cfg.Weekdays[a] })
			}
		}
		if filt == 2 || filt == 3 {
			n := 1 + r.Intn(4)
			for k := 0; k < n; k++ {
				cfg.Dates = append(cfg.Dates, anchor.AddDate(0, 0, r.Intn(9)-1).Format("2006-01-02"))
			}
			if r.Chance(0.3) {
				cfg.Dates = append(cfg.Dates, "2031-01-01")
			}
			if r.Chance(0.4) {
				// days around another anchor (another year), listed in no particular order
				other := anchors[r.Intn(len(anchors))]
				for k := 0; k < 1+r.Intn(3); k++ {
					cfg.Dates = append(cfg.Dates, other.AddDate(0, 0, r.Intn(9)-1).Format("2006-01-02"))
				}
				r.Shuffle(len(cfg.Dates), func(a, b int) { cfg.Dates[a], cfg.Dates[b] = cfg.Dates[b], cfg.Dates[a] })
			}
		}
		if len(cfg.Dates) > 0 && i%3 == 1 {
			// entries that have the form of a date but name no calendar day (February 30th, month 13, day 0):
			// they allow no day - in particular not the day a lenient calendar would turn them into, which
			// lies inside the week that is examined
			ghost := map[string][]string{
				"2023-07-16": {"2023-06-47", "2023-07-00", "2022-19-18"},
				"2023-12-28": {"2023-12-32", "2023-13-01", "2023-12-00"},
				"2024-02-26": {"2024-02-30", "2024-02-31", "2023-14-28"},
				"2023-02-25": {"2023-02-29", "2023-02-30", "2023-01-58"},
				"2025-04-27": {"2025-04-31", "2025-05-00", "2025-03-60"},
				"1999-12-29": {"1999-12-32", "1999-13-02", "2000-00-31"},
			}[anchor.Format("2006-01-02")]
			for _, gdate := range ghost {
				if r.Chance(0.6) {
					cfg.Dates = append(cfg.Dates, gdate)
				}
			}
			r.Shuffle(len(cfg.Dates), func(a, b int) { cfg.Dates[a], cfg.Dates[b] = cfg.Dates[b], cfg.Dates[a] })
		}
		if i%12 == 7 {
			// a fixed corner that does not depend on the draw: a window that wraps past midnight, filtered
			// to the last days of the month / year around the anchor (both the day it starts on and the next)
			cfg.sMin, cfg.eMin = 20*60+r.Intn(200), 60+r.Intn(300)
			cfg.Start, cfg.End = hhmm(r, cfg.sMin), hhmm(r, cfg.eMin)
			cfg.Weekdays = nil
			cfg.Dates = nil
			for _, off := range [][]int{{3}, {3, 4}, {2, 3}, {4}, {5}}[r.Intn(5)] {
				cfg.Dates = append(cfg.Dates, anchor.AddDate(0, 0, off).Format("2006-01-02"))
			}
		}
		kind := "normal"
		if cfg.eMin == cfg.sMin {
			kind = "equal"
		} else if cfg.eMin < cfg.sMin {
			kind = "wrap"
		}
		c.Distinct(fmt.Sprintf("%s wd=%d dates=%v anchor=%s", kind, len(cfg.Weekdays), len(cfg.Dates) > 0, anchor.Format("2006-01-02")))

		check := func(t time.Time) bool {
			want := refActive(cfg, t)
			for zi, z := range zones {
				tt := t.In(z)
				got, err := client.VerifScheduleActive(cfg.Start, cfg.End, append([]time.Weekday{}, cfg.Weekdays...), append([]string{}, cfg.Dates...), tt)
				atomic.AddInt64(&evals, 1)
				if err != nil {
					c.Violate("schedule:error", "activeForTime returned an error for a well-formed config: "+err.Error(), map[string]any{"cfg": cfg, "t": tt.Format(time.RFC3339Nano)})
					return false
				}
				if got != want {
					sig := "schedule:wrong-" + kind
					if zi > 0 {
						if g0, _ := client.VerifScheduleActive(cfg.Start, cfg.End, cfg.Weekdays, cfg.Dates, t); g0 == want {
							sig = "schedule:zone-dependent"
						}
					}
					c.Violate(sig, fmt.Sprintf("active=%v, definition says %v", got, want), map[string]any{"cfg": cfg, "t": tt.Format(time.RFC3339Nano), "utc": t.UTC().Format(time.RFC3339Nano), "weekday": t.UTC().Weekday().String()})
					return false
				}
			}
			return true
		}
		ok := true
		// every minute of a week (plus a day each side)
		for m := -1440; m < 8*1440 && ok; m++ {
			ok = check(anchor.Add(time.Duration(m) * time.Minute))
		}
		// the instants around every window edge
		for d := -1; d <= 8 && ok; d++ {
			day := anchor.AddDate(0, 0, d)
			for _, edge := range []int{cfg.sMin, cfg.eMin, 0} {
				e := day.Add(time.Duration(edge) * time.Minute)
				for _, off := range []time.Duration{-time.Second, -time.Nanosecond, 0, time.Nanosecond, time.Second} {
					if ok {
						ok = check(e.Add(off))
					}
				}
			}
		}
		// one schedule value asked about many instants in a row, in an order that jumps back and forth
		// across days, months and years (whatever a schedule remembers from one call must not leak into the next)
		if ok {
			var ts []time.Time
			for q := 0; q < 400; q++ {
				base := anchors[r.Intn(len(anchors))]
				t := base.Add(time.Duration(r.Intn(10*1440)-1440) * time.Minute).Add(time.Duration(r.Intn(3)-1) * time.Nanosecond)
				if r.Chance(0.3) {
					day := base.AddDate(0, 0, r.Intn(9)-1)
					t = day.Add(time.Duration([]int{cfg.sMin, cfg.eMin}[r.Intn(2)]) * time.Minute).Add([]time.Duration{-time.Nanosecond, 0, time.Nanosecond}[r.Intn(3)])
				}
				ts = append(ts, t.In(zones[r.Intn(len(zones))]))
			}
			// the schedule gets its own copies of the lists (the reference model must not see what the
			// code under test does to them), and they must come back as they went in
			wdIn, datesIn := append([]time.Weekday{}, cfg.Weekdays...), append([]string{}, cfg.Dates...)
			got, errs := client.VerifScheduleActiveSeq(cfg.Start, cfg.End, wdIn, datesIn, ts)
			if fmt.Sprint(wdIn) != fmt.Sprint(cfg.Weekdays) || fmt.Sprint(datesIn) != fmt.Sprint(cfg.Dates) {
				c.Violate("schedule:configuration-changed-by-evaluation", fmt.Sprintf("evaluating the schedule rewrote its filter lists: dates %v -> %v, weekdays %v -> %v", cfg.Dates, datesIn, cfg.Weekdays, wdIn), map[string]any{"cfg": cfg})
				ok = false
			}
			atomic.AddInt64(&evals, int64(len(ts)))
			for q, t := range ts {
				if errs[q] != nil {
					c.Violate("schedule:error", "activeForTime returned an error for a well-formed config: "+errs[q].Error(), map[string]any{"cfg": cfg, "t": t.Format(time.RFC3339Nano), "call_in_sequence": q})
					ok = false
					break
				}
				if want := refActive(cfg, t); got[q] != want {
					c.Violate("schedule:wrong-in-a-sequence-of-calls", fmt.Sprintf("call %d on one schedule value: active=%v, definition says %v", q, got[q], want), map[string]any{"cfg": cfg, "t": t.Format(time.RFC3339Nano), "utc": t.UTC().Format(time.RFC3339Nano), "call_in_sequence": q})
					ok = false
					break
				}
			}
		}
		if i < 4 {
			c.Sample(map[string]any{"cfg": cfg, "anchor": anchor.Format(time.RFC3339)})
		}
	})
	c.Eval(int(evals))
	c.Count("configs", int64(nCfg))
	if !vlib.Aborted() {
		c14EndToEnd(c)
		c.Require("condition_states_checked_after_triggers", 100)
	}
	return c.Finish()
}
