package checks

import (
	"bytes"
	"encoding/binary"
	"fmt"
	"math/rand"
	"net"
	"sort"
	"sync"
	"sync/atomic"
	"time"

	"github.com/simpleiot/simpleiot/modbus"

	"verifharness/internal/vlib"
)

func init() { Registry["C18"] = runC18 }

// ---- reference model of the server, from the Modbus Application Protocol
// v1.1b3 over the repository's documented register file (one address space,
// coil n = bit n%16 of register n/16, per-register write validators).

type mbValidator struct {
	Name string
	F    func(uint16) bool
}

var mbValidators = []mbValidator{
	{"even", func(v uint16) bool { return v%2 == 0 }},
	{"lt1000", func(v uint16) bool { return v < 1000 }},
	{"never", func(uint16) bool { return false }},
	{"notFFFF", func(v uint16) bool { return v != 0xffff }},
}

type mbModel struct {
	regs  map[uint16]uint16
	valid map[uint16]int // index into mbValidators
}

func (m *mbModel) clone() map[uint16]uint16 {
	out := make(map[uint16]uint16, len(m.regs))
	for k, v := range m.regs {
		out[k] = v
	}
	return out
}

func (m *mbModel) writeReg(a uint16, v uint16) int { // 0 ok, 2 illegal address, 3 illegal value
	if _, ok := m.regs[a]; !ok {
		return 2
	}
	if vi, ok := m.valid[a]; ok && !mbValidators[vi].F(v) {
		return 3
	}
	m.regs[a] = v
	return 0
}

// expectation of the model for one request
type mbExpect struct {
	// normal response expected (exact bytes), unless Exceptions non-empty
	Normal     []byte
	NormalAlt  []byte // alternative accepted normal response (echo of extra bytes)
	Exceptions map[byte]bool
	// MayError: returning a Go error instead of a response is acceptable (truncated PDU)
	MayError bool
	// MayProcessOrExc3: malformed-but-processable (extra bytes / byte count mismatch): normal OR exception 3
	Lenient bool
	// after: expected register file if the normal response is given; nil = unchanged
	After map[uint16]uint16
	// FreeRegs: registers that may hold any value afterwards (multi write answered with an exception)
	FreeRegs map[uint16]bool
	Class    string
}

func (m *mbModel) expect(fc byte, d []byte) mbExpect {
	e := mbExpect{Exceptions: map[byte]bool{}}
	u16 := func(i int) int { return int(binary.BigEndian.Uint16(d[i:])) }
	need := map[byte]int{1: 4, 2: 4, 3: 4, 4: 4, 5: 4, 6: 4, 15: 6, 16: 7}
	n, known := need[fc]
	if !known {
		e.Exceptions[1] = true
		e.Class = "illegal-function"
		// functions the spec defines but this server does not implement: a PDU shorter than
		// the spec's minimum for them is a truncated PDU (error return tolerated)
		if min, ok := map[byte]int{22: 6, 23: 11, 24: 2}[fc]; ok && len(d) < min {
			e.MayError = true
			e.Class = "truncated-unimplemented"
		}
		return e
	}
	if len(d) < n {
		e.MayError = true
		for x := byte(1); x <= 4; x++ {
			e.Exceptions[x] = true
		}
		e.Class = "truncated"
		return e
	}
	addr := u16(0)
	switch fc {
	case 1, 2, 3, 4:
		qty := u16(2)
		limit := 2000
		if fc >= 3 {
			limit = 125
		}
		if qty < 1 || qty > limit {
			e.Exceptions[3] = true
		}
		addrBad := addr+qty > 65536
		if !addrBad && qty <= 4000 {
			for i := 0; i < qty; i++ {
				a := addr + i
				if fc <= 2 {
					a /= 16
				}
				if _, ok := m.regs[uint16(a)]; !ok {
					addrBad = true
					break
				}
			}
		} else if qty > 4000 {
			addrBad = true // cannot all be present and is beyond every limit anyway; both codes acceptable
		}
		if addrBad {
			e.Exceptions[2] = true
		}
		if len(e.Exceptions) > 0 {
			e.Class = fmt.Sprintf("read-fc%d-exc", fc)
			return e
		}
		if len(d) > 4 {
			e.Lenient = true
			e.Exceptions[3] = true
		}
		if fc <= 2 {
			bc := (qty + 7) / 8
			out := make([]byte, 1+bc)
			out[0] = byte(bc)
			for i := 0; i < qty; i++ {
				c := addr + i
				if m.regs[uint16(c/16)]&(1<<uint(c%16)) != 0 {
					out[1+i/8] |= 1 << uint(i%8)
				}
			}
			e.Normal = out
		} else {
			out := make([]byte, 1+2*qty)
			out[0] = byte(2 * qty)
			for i := 0; i < qty; i++ {
				binary.BigEndian.PutUint16(out[1+2*i:], m.regs[uint16(addr+i)])
			}
			e.Normal = out
		}
		e.Class = fmt.Sprintf("read-fc%d-ok", fc)
		if e.Lenient {
			e.Class += "-extra-bytes"
		}
		return e
	case 5, 6:
		v := uint16(u16(2))
		reg := uint16(addr)
		newv := v
		if fc == 5 {
			reg = uint16(addr / 16)
			if v != 0 && v != 0xff00 {
				e.Exceptions[3] = true
			}
			cur := m.regs[reg]
			if v == 0xff00 {
				newv = cur | 1<<uint(addr%16)
			} else {
				newv = cur &^ (1 << uint(addr%16))
			}
		}
		if _, ok := m.regs[reg]; !ok {
			e.Exceptions[2] = true
		} else if len(e.Exceptions) == 0 {
			if vi, ok := m.valid[reg]; ok && !mbValidators[vi].F(newv) {
				e.Exceptions[3] = true
			}
		}
		if len(e.Exceptions) > 0 {
			e.Class = fmt.Sprintf("write-fc%d-exc", fc)
			return e
		}
		if len(d) > 4 {
			e.Lenient = true
			e.Exceptions[3] = true
			e.NormalAlt = append([]byte{}, d...)
		}
		e.Normal = append([]byte{}, d[:4]...)
		e.After = m.clone()
		e.After[reg] = newv
		e.Class = fmt.Sprintf("write-fc%d-ok", fc)
		return e
	case 15, 16:
		qty := u16(2)
		bc := int(d[4])
		limit, wantBC := 1968, (qty+7)/8
		if fc == 16 {
			limit, wantBC = 123, 2*qty
		}
		if qty < 1 || qty > limit {
			e.Exceptions[3] = true
		}
		if len(d) != 5+wantBC {
			e.Exceptions[3] = true
		}
		addrBad := addr+qty > 65536 || qty > 4000
		if !addrBad {
			for i := 0; i < qty; i++ {
				a := addr + i
				if fc == 15 {
					a /= 16
				}
				if _, ok := m.regs[uint16(a)]; !ok {
					addrBad = true
				}
			}
		}
		if addrBad {
			e.Exceptions[2] = true
		}
		e.FreeRegs = map[uint16]bool{}
		for i := 0; i < qty; i++ {
			a := addr + i
			if fc == 15 {
				a /= 16
			}
			// (an implementation without range checks wraps at 16 bits; registers it may have touched are free too)
			e.FreeRegs[uint16(a)] = true
			if vi, ok := m.valid[uint16(a)]; ok && a <= 0xffff && addrBad {
				// a write refused for its address may equally be refused by a validator it reaches first
				_ = vi
				e.Exceptions[3] = true
			}
		}
		if len(e.Exceptions) > 0 {
			e.Class = fmt.Sprintf("mwrite-fc%d-exc", fc)
			return e
		}
		// simulate the writes in order; a validator may reject one
		after := &mbModel{regs: m.clone(), valid: m.valid}
		for i := 0; i < qty; i++ {
			var rc int
			if fc == 15 {
				c := addr + i
				bit := d[5+i/8]>>(uint(i)%8)&1 == 1
				cur := after.regs[uint16(c/16)]
				if bit {
					cur |= 1 << uint(c%16)
				} else {
					cur &^= 1 << uint(c%16)
				}
				rc = after.writeReg(uint16(c/16), cur)
			} else {
				rc = after.writeReg(uint16(addr+i), binary.BigEndian.Uint16(d[5+2*i:]))
			}
			if rc != 0 {
				e.Exceptions[byte(rc)] = true
				e.Class = fmt.Sprintf("mwrite-fc%d-validator-exc", fc)
				return e
			}
		}
		if bc != wantBC {
			e.Lenient = true
			e.Exceptions[3] = true
		}
		e.Normal = append([]byte{}, d[:4]...)
		e.After = after.regs
		e.FreeRegs = nil
		e.Class = fmt.Sprintf("mwrite-fc%d-ok", fc)
		return e
	}
	return e
}

type mbMapSpec struct {
	Name   string
	Ranges [][2]int // [start, count]
	Valid  map[int]int
}

var mbMaps = []mbMapSpec{
	{Name: "empty"},
	{Name: "sparse", Ranges: [][2]int{{0, 1}, {8, 2}, {100, 1}, {0x7fff, 2}, {0xffff, 1}}},
	{Name: "dense0-260", Ranges: [][2]int{{0, 260}}},
	{Name: "dense-with-validators", Ranges: [][2]int{{0, 140}}, Valid: map[int]int{3: 0, 10: 1, 20: 2, 125: 3, 0: 1}},
	{Name: "top-of-space", Ranges: [][2]int{{0xff00, 256}, {0, 130}}},
	{Name: "coil-top", Ranges: [][2]int{{3960, 270}, {0, 4}}, Valid: map[int]int{4095: 0}},
	{Name: "coils-only", Ranges: [][2]int{{0, 1}, {1, 1}, {125, 2}}},
}

func buildRegs(r *vlib.R, spec mbMapSpec) (*modbus.Regs, *mbModel) {
	regs := &modbus.Regs{}
	m := &mbModel{regs: map[uint16]uint16{}, valid: map[uint16]int{}}
	if r.Chance(0.5) {
		// the same registers, but added the way an application does that registers what it needs piece by
		// piece: runs of 1-4 registers in no particular address order, some of them twice
		var pieces [][2]int
		for _, rg := range spec.Ranges {
			for a := 0; a < rg[1]; {
				n := 1 + r.Intn(4)
				if a+n > rg[1] {
					n = rg[1] - a
				}
				pieces = append(pieces, [2]int{rg[0] + a, n})
				if r.Chance(0.1) {
					pieces = append(pieces, [2]int{rg[0] + a, 1})
				}
				a += n
			}
		}
		r.Shuffle(len(pieces), func(a, b int) { pieces[a], pieces[b] = pieces[b], pieces[a] })
		for _, pc := range pieces {
			regs.AddReg(pc[0], pc[1])
		}
	}
	for _, rg := range spec.Ranges {
		regs.AddReg(rg[0], rg[1])
		for i := 0; i < rg[1]; i++ {
			a := uint16(rg[0] + i)
			v := uint16(r.Intn(65536))
			if r.Chance(0.2) {
				v = []uint16{0, 0xffff, 1, 0x8000}[r.Intn(4)]
			}
			_ = regs.WriteReg(int(a), v)
			m.regs[a] = v
		}
	}
	for a, vi := range spec.Valid {
		if err := regs.AddRegValueValidator(a, mbValidators[vi].F); err == nil {
			m.valid[uint16(a)] = vi
		}
	}
	return regs, m
}

var mbEdge16 = []int{0, 1, 2, 7, 8, 15, 16, 17, 122, 123, 124, 125, 126, 127, 128, 255, 256, 1967, 1968, 1969, 1999, 2000, 2001, 2039, 2040, 2041, 2047, 2048, 4095, 4096, 0x7fff, 0x8000, 0xfffe, 0xffff}

func genMbRequest(r *vlib.R, spec mbMapSpec) (byte, []byte) {
	fcs := []byte{1, 2, 3, 4, 5, 6, 15, 16}
	if r.Chance(0.08) {
		d := make([]byte, r.Intn(12))
		r.Read(d)
		return byte(r.Intn(256)), d
	}
	fc := fcs[r.Intn(len(fcs))]
	pickAddr := func(coil bool) int {
		switch r.Intn(4) {
		case 0:
			return mbEdge16[r.Intn(len(mbEdge16))]
		case 1:
			return r.Intn(65536)
		default:
			if len(spec.Ranges) == 0 {
				return r.Intn(300)
			}
			rg := spec.Ranges[r.Intn(len(spec.Ranges))]
			a := rg[0] + r.Intn(rg[1]+2) - 1
			if coil {
				a = a*16 + r.Intn(16)
			}
			if a < 0 {
				a = 0
			}
			return a & 0xffff
		}
	}
	pickQty := func(limit int) int {
		switch r.Intn(5) {
		case 0:
			return mbEdge16[r.Intn(len(mbEdge16))]
		case 1:
			return []int{limit - 1, limit, limit + 1, 0, 1}[r.Intn(5)]
		case 2:
			return r.Intn(65536)
		default:
			return 1 + r.Intn(40)
		}
	}
	var d []byte
	put := func(v int) { d = append(d, byte(v>>8), byte(v)) }
	switch fc {
	case 1, 2:
		put(pickAddr(true))
		put(pickQty(2000))
	case 3, 4:
		put(pickAddr(false))
		put(pickQty(125))
	case 5:
		put(pickAddr(true))
		put([]int{0, 0xff00, 0xff00, 0, 1, 0xff, 0xffff, 0x00ff}[r.Intn(8)])
	case 6:
		put(pickAddr(false))
		put([]int{0, 1, 2, 999, 1000, 1001, 0xffff, 0xfffe}[r.Intn(8)])
	case 15:
		q := pickQty(1968)
		if q > 2100 && r.Chance(0.8) {
			q = 1 + r.Intn(2100)
		}
		put(pickAddr(true))
		put(q)
		bc := (q + 7) / 8
		if r.Chance(0.1) {
			bc += r.Intn(3) - 1
		}
		if bc < 0 {
			bc = 0
		}
		bcb := byte(bc)
		if r.Chance(0.05) {
			bcb = byte(r.Intn(256))
		}
		d = append(d, bcb)
		pay := make([]byte, bc)
		r.Read(pay)
		d = append(d, pay...)
	case 16:
		q := pickQty(123)
		if q > 200 && r.Chance(0.8) {
			q = 1 + r.Intn(200)
		}
		put(pickAddr(false))
		put(q)
		bc := 2 * q
		if r.Chance(0.1) {
			bc += r.Intn(5) - 2
		}
		if bc < 0 {
			bc = 0
		}
		bcb := byte(bc)
		if r.Chance(0.05) {
			bcb = byte(r.Intn(256))
		}
		d = append(d, bcb)
		pay := make([]byte, bc)
		r.Read(pay)
		if r.Chance(0.5) { // values that validators like
			for i := range pay {
				pay[i] = byte(r.Intn(3)) * 2
			}
		}
		d = append(d, pay...)
	}
	switch r.Intn(25) {
	case 0:
		if len(d) > 0 {
			d = d[:r.Intn(len(d))]
		}
	case 1:
		d = append(d, byte(r.Intn(256)))
	}
	return fc, d
}

func runC18(tier string, _ []string) int {
	c := vlib.NewCtx("C18", tier, "exploration")
	c.SetRule("requests: function codes 1,2,3,4,5,6,15,16 from structured generators (address and quantity at 0,1,limit-1,limit,limit+1,2040/2041,0x7FFF,0x8000,0xFFFF, straddling the end of each mapped range and 65535->0; byte counts off by one; validator-friendly and hostile values; truncations and extra bytes) plus raw random (function code 0..255, random data), replayed as a stateful sequence against 7 register maps (empty, sparse, dense, dense with validators, top of address space, coil top, coils only; in half of the runs the registers are added in runs of 1-4 in shuffled address order). Oracle: reference server written from the Modbus spec v1.1b3; compared: response PDU, error return, register file (addressed registers every request, the whole file every 64 requests). distinct = (map, model outcome class, actual outcome) Finally 3-8 goroutines call ProcessRequest on one register file at once (as the handlers of a TCP server do), each writing coils only it owns inside registers shared with the others, reading each back and comparing all at rest. About 3% of the steps extend the live register file between two requests (AddReg next to existing registers, AddCoil, a validator on an existing register); the model follows. Last, raw frames with header anomalies (MBAP length 0 / 1 / short / long, protocol id, truncated or over-long frames, RTU frames with good and bad CRC) are written to a running Server over TCP and RTU framing: the listener goroutine must not panic. Finally the TCPServer itself: 3x its connection limit of sessions one after the other, each must be answered.")
	c.Assume("tolerances: two simultaneous exception causes accept either code; truncated PDUs may get an exception or an error return; extra trailing bytes or a disagreeing byte-count byte with consistent length may be processed or refused with exception 3; multi-writes refused with an exception may leave addressed registers in any state")
	nReq := c.N(600000, 20000000)
	perSeq := 400
	nSeq := nReq / perSeq
	wd := c.NewWatchdog()
	vlib.Parallel(nSeq, 0, func(si int) {
		r := vlib.NewR(c.Seed, "c18", si)
		spec := mbMaps[si%len(mbMaps)]
		regs, model := buildRegs(r, spec)
		addrs := make([]int, 0, len(model.regs))
		for a := range model.regs {
			addrs = append(addrs, int(a))
		}
		sort.Ints(addrs)
		fullCheck := func(fc byte, d []byte, why string) bool {
			for _, a := range addrs {
				v, err := regs.ReadReg(a)
				if err != nil || v != model.regs[uint16(a)] {
					c.Violate("modbus-server:register-file-diverged", fmt.Sprintf("%s: register %d holds %d, model %d (err %v)", why, a, v, model.regs[uint16(a)], err),
						map[string]any{"map": spec.Name, "seq": si, "fc": fc, "data": d})
					return false
				}
			}
			return true
		}
		for k := 0; k < perSeq; k++ {
			if r.Chance(0.03) {
				// the application extends the live register file (as node/modbus.go does when IO nodes are
				// added): new registers, a coil's register, a validator on an existing register
				switch r.Intn(3) {
				case 0:
					a0, n := r.Intn(0xfff0), 1+r.Intn(4)
					if len(addrs) > 0 && r.Chance(0.6) {
						a0 = addrs[r.Intn(len(addrs))] + r.Intn(2) // on top of / next to existing ones (registering a register again leaves it as it is)
					}
					if a0+n > 0x10000 {
						a0 = 0x10000 - n // AddReg takes an int and truncates it to 16 bits: stay inside the address space
					}
					regs.AddReg(a0, n)
					for q := 0; q < n; q++ {
						if _, ok := model.regs[uint16(a0+q)]; !ok && a0+q <= 0xffff {
							model.regs[uint16(a0+q)] = 0
							addrs = append(addrs, a0+q)
						}
					}
				case 1:
					coil := r.Intn(0xffff)
					if len(addrs) > 0 && r.Chance(0.5) {
						coil = addrs[r.Intn(len(addrs))]*16 + r.Intn(16) // a second coil in a register that exists
					}
					regs.AddCoil(coil)
					if _, ok := model.regs[uint16(coil/16)]; !ok {
						model.regs[uint16(coil/16)] = 0
						addrs = append(addrs, coil/16)
					}
				default:
					if len(addrs) > 0 {
						a := addrs[r.Intn(len(addrs))]
						if _, has := model.valid[uint16(a)]; !has {
							vi := r.Intn(len(mbValidators))
							if err := regs.AddRegValueValidator(a, mbValidators[vi].F); err == nil {
								model.valid[uint16(a)] = vi
							}
						}
					}
				}
				sort.Ints(addrs)
				c.Count("live_register_file_changes", 1)
			}
			fc, d := genMbRequest(r, spec)
			exp := model.expect(fc, d)
			wit := map[string]any{"map": spec.Name, "seq": si, "step": k, "fc": fc, "data": d, "class": exp.Class}
			pdu := modbus.PDU{FunctionCode: modbus.FunctionCode(fc), Data: append([]byte{}, d...)}
			var resp modbus.PDU
			var err error
			var panicked any
			done := wd.Watch("modbus-server:hang", wit, 60*time.Second, true)
			func() {
				defer func() { panicked = recover() }()
				_, resp, err = pdu.ProcessRequest(regs)
			}()
			done()
			c.Eval(1)
			if panicked != nil {
				c.Violate("modbus-server:panic-fc"+fmt.Sprint(fc), fmt.Sprintf("ProcessRequest panicked: %v", panicked), wit)
				return
			}
			wit["resp_fc"], wit["resp_data"], wit["err"] = resp.FunctionCode, resp.Data, fmt.Sprint(err)
			outcome := ""
			applyAfter := false
			switch {
			case err != nil:
				outcome = "error"
				if !exp.MayError {
					c.Violate("modbus-server:error-return", "well-formed request got an error return instead of a response: "+err.Error(), wit)
					return
				}
			case byte(resp.FunctionCode) == fc|0x80 && (fc < 0x80 || (len(resp.Data) == 1 && exp.Normal == nil)):
				outcome = "exception"
				if len(resp.Data) != 1 {
					c.Violate("modbus-server:malformed-exception", "exception response without exactly one code byte", wit)
					return
				}
				if !exp.Exceptions[resp.Data[0]] {
					sig := "modbus-server:wrong-exception"
					if len(exp.Exceptions) == 0 {
						sig = "modbus-server:exception-for-valid-request"
					}
					c.Violate(sig, fmt.Sprintf("exception %d; model accepts %v normal=%v", resp.Data[0], exp.Exceptions, exp.Normal != nil), wit)
					return
				}
				outcome += fmt.Sprint(resp.Data[0])
			case byte(resp.FunctionCode) == fc:
				outcome = "normal"
				if exp.Normal == nil {
					sig := "modbus-server:accepted-illegal-request"
					if exp.Exceptions[3] && !exp.Exceptions[2] {
						sig = "modbus-server:accepted-illegal-quantity-or-value"
					} else if exp.Exceptions[2] && !exp.Exceptions[3] {
						sig = "modbus-server:accepted-illegal-address"
					} else if exp.Exceptions[1] {
						sig = "modbus-server:accepted-illegal-function"
					}
					c.Violate(sig, fmt.Sprintf("normal response; the spec requires an exception %v (%s)", exp.Exceptions, exp.Class), wit)
					return
				}
				if !bytes.Equal(resp.Data, exp.Normal) && !(exp.NormalAlt != nil && bytes.Equal(resp.Data, exp.NormalAlt)) {
					c.Violate("modbus-server:wrong-response", fmt.Sprintf("response data differs from the model's %v", exp.Normal), wit)
					return
				}
				applyAfter = true
			default:
				c.Violate("modbus-server:wrong-function-code", "response carries a different function code", wit)
				return
			}
			// register file
			if applyAfter && exp.After != nil {
				model.regs = exp.After
			}
			if !applyAfter && exp.FreeRegs != nil && (fc == 15 || fc == 16) {
				// refused multi write: addressed registers may be in any state; resynchronise the model from the implementation
				for a := range exp.FreeRegs {
					if _, ok := model.regs[a]; ok {
						v, _ := regs.ReadReg(int(a))
						model.regs[a] = v
					}
				}
			}
			// cheap local check: addressed registers + neighbours
			if len(d) >= 2 {
				a0 := int(binary.BigEndian.Uint16(d))
				for _, a := range []int{a0 - 1, a0, a0 + 1, a0 / 16, a0/16 + 1, 0, 0xffff} {
					if mv, ok := model.regs[uint16(a)]; ok && a >= 0 && a <= 0xffff {
						v, err := regs.ReadReg(a)
						if err != nil || v != mv {
							sig := "modbus-server:register-file-diverged"
							if outcome != "normal" && fc != 15 && fc != 16 {
								sig = "modbus-server:refused-request-changed-registers"
							}
							c.Violate(sig, fmt.Sprintf("after %s: register %d holds %d, model %d", outcome, a, v, mv), wit)
							return
						}
					}
				}
			}
			if k%64 == 63 || k == perSeq-1 {
				if !fullCheck(fc, d, "periodic full compare") {
					return
				}
			}
			c.Distinct(fmt.Sprintf("%s %s -> %s", spec.Name, exp.Class, outcome))
			c.Count("outcome:"+outcome[:4], 1)
			if si == 0 && k < 4 {
				c.Sample(wit)
			}
		}
	})
	// ---- the same server entry point called from several connections at once (a TCP server runs one
	// handler per connection on one register file): a write changes exactly the addressed coil, also
	// while other callers write its neighbours in the same 16-bit register
	nConc := c.N(20, 200)
	for ci := 0; ci < nConc && !vlib.Aborted(); ci++ {
		r := vlib.NewR(c.Seed, "c18conc", ci)
		regs := &modbus.Regs{}
		regs.AddReg(0, 8)
		nW := 3 + r.Intn(6)
		rounds := c.N(300, 1000)
		var wg sync.WaitGroup
		var bad atomic.Value
		final := make([]map[int]bool, nW)
		for w := 0; w < nW; w++ {
			wg.Add(1)
			seed := r.Int63()
			go func(w int) {
				defer wg.Done()
				defer func() {
					if p := recover(); p != nil {
						bad.Store(fmt.Sprintf("ProcessRequest panicked under concurrent callers: %v", p))
					}
				}()
				cr := rand.New(rand.NewSource(seed))
				final[w] = map[int]bool{}
				for q := 0; q < rounds && bad.Load() == nil; q++ {
					coil := w + nW*cr.Intn(128/nW)
					v := cr.Intn(2) == 1
					val := uint16(0)
					if v {
						val = 0xff00
					}
					req := modbus.PDU{FunctionCode: modbus.FuncCodeWriteSingleCoil, Data: []byte{byte(coil >> 8), byte(coil), byte(val >> 8), byte(val)}}
					_, resp, err := req.ProcessRequest(regs)
					if err != nil || resp.FunctionCode != modbus.FuncCodeWriteSingleCoil {
						bad.Store(fmt.Sprintf("caller %d: write single coil %d refused: %v fc=%d", w, coil, err, resp.FunctionCode))
						return
					}
					final[w][coil] = v
					rd := modbus.PDU{FunctionCode: modbus.FuncCodeReadCoils, Data: []byte{byte(coil >> 8), byte(coil), 0, 1}}
					_, resp, err = rd.ProcessRequest(regs)
					if err != nil || len(resp.Data) != 2 || (resp.Data[1]&1 == 1) != v {
						bad.Store(fmt.Sprintf("caller %d wrote coil %d = %v (normal response) and the next read of it returned % x %v while %d other callers wrote other coils", w, coil, v, resp.Data, err, nW-1))
						return
					}
				}
			}(w)
		}
		wg.Wait()
		c.Eval(nW * rounds)
		if bad.Load() == nil {
			for w := range final {
				for coil, v := range final[w] {
					if got, err := regs.ReadCoil(coil); err != nil || got != v {
						bad.Store(fmt.Sprintf("at rest: coil %d holds %v, the last acknowledged write was %v", coil, got, v))
					}
				}
			}
		}
		if b := bad.Load(); b != nil {
			c.Violate("modbus-server:write-changed-other-than-addressed:concurrent-callers", b.(string), map[string]any{"case": ci, "seed": c.Seed, "callers": nW})
			break
		}
		c.Count("concurrent_caller_runs", 1)
		c.Distinct(fmt.Sprintf("concurrent callers %d", nW))
	}
	// ---- the same through the transports: raw frames with header anomalies (MBAP length field 0, 1, too
	// short, too long, protocol id, truncated and over-long frames; RTU frames with and without a valid
	// CRC) written to a running Server; the listener must survive every one of them
	nRaw := c.N(600, 12000)
	vlib.Parallel(nRaw, 0, func(ri int) {
		r := vlib.NewR(c.Seed, "c18raw", ri)
		regs := &modbus.Regs{}
		regs.AddReg(0, 16)
		kind := []string{"tcp", "rtu"}[ri%2]
		c1, c2 := net.Pipe()
		var st modbus.Transport
		if kind == "tcp" {
			st = modbus.NewTCP(c2, 100*time.Millisecond, modbus.TransportServer)
		} else {
			st = modbus.NewRTU(c2)
		}
		srv := modbus.NewServer(1, st, regs, 0)
		var panicked atomic.Value
		done := make(chan struct{})
		go func() {
			defer close(done)
			defer func() {
				if p := recover(); p != nil {
					panicked.Store(fmt.Sprint(p))
				}
			}()
			srv.Listen(func(error) {}, func() {}, func() {})
		}()
		pdu := []byte{3, 0, byte(r.Intn(20)), 0, byte(1 + r.Intn(4))}
		if r.Chance(0.3) {
			pdu = []byte{byte(r.Intn(256))}
			extra := make([]byte, r.Intn(6))
			r.Read(extra)
			pdu = append(pdu, extra...)
		}
		var frame []byte
		if kind == "tcp" {
			length := 1 + len(pdu)
			switch r.Intn(8) {
			case 0:
				length = 0
			case 1:
				length = 1
			case 2:
				length = 2
			case 3:
				length = len(pdu)
			case 4:
				length = 2 + len(pdu) + r.Intn(4)
			case 5:
				length = 0xffff
			}
			frame = []byte{byte(r.Intn(256)), byte(r.Intn(256)), 0, byte(r.Intn(2) * r.Intn(2)), byte(length >> 8), byte(length), 1}
			frame = append(frame, pdu...)
			switch r.Intn(6) {
			case 0:
				frame = frame[:r.Intn(len(frame)+1)]
			case 1:
				frame = append(frame, make([]byte, 1+r.Intn(300))...)
			}
		} else {
			frame = append([]byte{1}, pdu...)
			crc := modbus.RtuCrc(frame)
			frame = append(frame, byte(crc), byte(crc>>8))
			switch r.Intn(6) {
			case 0:
				frame = frame[:r.Intn(len(frame)+1)]
			case 1:
				frame[len(frame)-1] ^= 0x01
			case 2:
				frame = append(frame, make([]byte, 1+r.Intn(300))...)
			}
		}
		wit := map[string]any{"case": ri, "seed": c.Seed, "transport": kind, "frame": frame}
		_ = c1.SetDeadline(time.Now().Add(2 * time.Second))
		if len(frame) > 0 {
			_, _ = c1.Write(frame)
		}
		buf := make([]byte, 512)
		_ = c1.SetReadDeadline(time.Now().Add(150 * time.Millisecond))
		_, _ = c1.Read(buf)
		c.Eval(1)
		_ = c1.Close()
		go func() { _ = srv.Close() }()
		select {
		case <-done:
		case <-time.After(10 * time.Second):
		}
		if p := panicked.Load(); p != nil {
			c.Violate("modbus-server:panic-in-listener:"+kind, "Server.Listen panicked on a raw frame: "+p.(string), wit)
			return
		}
		c.Count("raw_frames_survived:"+kind, 1)
		c.Distinct(fmt.Sprintf("raw %s len~%d", kind, len(frame)/8*8))
	})
	// ---- the TCP server over its lifetime: more sessions than its connection limit, one after the
	// other (each connects, asks, is answered, disconnects); a closed session must give its slot back
	vlib.SetPortBlock(18)
	nSrv := c.N(3, 20)
	for si := 0; si < nSrv && !vlib.Aborted(); si++ {
		r := vlib.NewR(c.Seed, "c18tcpserver", si)
		regs := &modbus.Regs{}
		regs.AddReg(0, 8)
		for a := 0; a < 8; a++ {
			_ = regs.WriteReg(a, uint16(1000+a))
		}
		port, release := vlib.FreePort()
		maxClients := 2 + r.Intn(3)
		ts, err := modbus.NewTCPServer(1, maxClients, fmt.Sprint(port), regs, 0)
		if err != nil {
			release()
			c.Inconclusive("TCP server does not start: " + err.Error())
			continue
		}
		go ts.Listen(func(error) {}, func() {}, func() {})
		sessions := 3*maxClients + r.Intn(4)
		bad := ""
		for q := 0; q < sessions && bad == ""; q++ {
			conn, err := net.DialTimeout("tcp", fmt.Sprintf("127.0.0.1:%d", port), 5*time.Second)
			if err != nil {
				bad = fmt.Sprintf("session %d of %d (limit %d): connect: %v", q+1, sessions, maxClients, err)
				break
			}
			cl := modbus.NewClient(modbus.NewTCP(conn, 3*time.Second, modbus.TransportClient), 0)
			a := r.Intn(8)
			got, err := cl.ReadHoldingRegs(1, uint16(a), 1)
			c.Eval(1)
			if err != nil || len(got) != 1 || got[0] != uint16(1000+a) {
				bad = fmt.Sprintf("session %d of %d on a server with a limit of %d connections (all earlier sessions were closed): read of register %d answered %v %v", q+1, sessions, maxClients, a, got, err)
			}
			_ = cl.Close()
			_ = conn.Close()
			// the server notices the disconnect on its next read (its read deadline is 500 ms)
			time.Sleep(time.Duration(20+r.Intn(60)) * time.Millisecond)
			if q%maxClients == maxClients-1 {
				time.Sleep(650 * time.Millisecond)
			}
		}
		go func() { _ = ts.Close() }() // (Close can block on a handler that is just finishing: observation in DESIGN 3.3)
		release()
		if bad != "" {
			c.Violate("modbus-server:no-answer-after-earlier-sessions", bad, map[string]any{"case": si, "seed": c.Seed, "limit": maxClients})
			break
		}
		c.Count("tcp_server_lifetimes", 1)
		c.Count("tcp_sessions_answered", int64(sessions))
		c.Distinct(fmt.Sprintf("tcp server limit=%d", maxClients))
	}
	c.Require("outcome:norm", 500)
	c.Require("outcome:exce", 500)
	return c.Finish()
}
