package checks

import (
	"sync"

	"github.com/simpleiot/simpleiot/client"
)

// Dispatch of the repository's verif-tag hook events to the monitors of the
// cases currently running (each handler filters by the ids it owns).

type hookFn func(site string, args ...any)

var hookMu sync.RWMutex
var hookHandlers = map[int]hookFn{}
var hookNext int

func init() {
	client.VerifSetHook(func(site string, args ...any) {
		hookMu.RLock()
		hs := make([]hookFn, 0, len(hookHandlers))
		for _, h := range hookHandlers {
			hs = append(hs, h)
		}
		hookMu.RUnlock()
		for _, h := range hs {
			h(site, args...)
		}
	})
}

// addClientHook registers a handler; call the returned func to remove it.
func addClientHook(f hookFn) func() {
	hookMu.Lock()
	hookNext++
	id := hookNext
	hookHandlers[id] = f
	hookMu.Unlock()
	return func() {
		hookMu.Lock()
		delete(hookHandlers, id)
		hookMu.Unlock()
	}
}
