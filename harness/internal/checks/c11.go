package checks

import (
	"fmt"
	"math"
	"reflect"
	"sync"

	"github.com/simpleiot/simpleiot/data"

	"verifharness/internal/vlib"
)

func init() { Registry["C11"] = runC11 }

var c11Keys = []string{"", "0", "1", "2", "5", "-1", "+3", "007", "999", "1000", "1001", "99999999999999999999",
	"1e3", "abc", "0x10", " 1", "1 ", "k0", "k1", "fldA0", "fldB1", "a", "b", "c", "٣", "-0", "2147483648", "9223372036854775807", "9223372036854775808"}

var c11Vals = []float64{math.NaN(), math.Inf(1), math.Inf(-1), math.MaxFloat64, -math.MaxFloat64, 1 << 63, -(1 << 63), 1 << 64,
	-1, 0, 1, 1.5, 255, 256, 65535, 65536, 4294967295, 4294967296, 1 << 53, -0.5, math.Copysign(0, -1), 127, 128, -128, -129, 1e300, math.SmallestNonzeroFloat64}

var c11Tombs = []int{0, 0, 0, 1, 1, 2, 3, -1, -2, math.MaxInt32, math.MaxInt64, math.MinInt64}

func c11Point(r *vlib.R, types []string) data.Point {
	p := data.Point{Type: types[r.Intn(len(types))]}
	if r.Chance(0.8) {
		p.Key = c11Keys[r.Intn(len(c11Keys))]
	} else {
		p.Key = r.Str()
	}
	if r.Chance(0.7) {
		p.Value = c11Vals[r.Intn(len(c11Vals))]
	} else {
		p.Value = math.Float64frombits(r.Uint64())
	}
	p.Text = r.Str()
	p.Tombstone = c11Tombs[r.Intn(len(c11Tombs))]
	if r.Chance(0.3) {
		p.Time = vlib.UnixNs(r.TimeNs())
	}
	if r.Chance(0.1) {
		p.Origin = r.Str()
	}
	return p
}

func runC11(tier string, _ []string) int {
	c := vlib.NewCtx("C11", tier, "exploration")
	c.SetRule("types and prior values as in C10 (reflect.StructOf + static type); point lists of 0..12 points over declared and undeclared types with keys from a hostile pool ('', 0, -1, +3, 007, 1000, 1001, 1e3, abc, huge, unicode digits…), values (NaN, ±Inf, ±MaxFloat64, 2^63, 2^64, type-range edges), tombstones (0,1,2,3,-1,Max,Min) fed to data.Decode (points, edge points and children), data.MergePoints and data.MergeEdgePoints under a panic monitor, followed in a third of the cases by up to three more merges into the same target (keys around 500 and 1000 included) and, in 4% of the cases, starting from slices of 400-1000 elements; lists made only of undeclared types must leave the target unchanged and return no error. Then lists of 1001-5000 points of one type (deletions of other indexes, repeated deletions, live and deleted mixed); then types no one has used before decoded into by sixteen goroutines at once, each of which must get what a caller on its own gets. distinct = (entry point, outcome, shapes of the fields hit, key class)")
	c.Assume("only supported (exported, tagged) field kinds are generated; a Go panic is the crash signal")
	n := c.N(50000, 3000000)
	static := c10StaticGen()
	for i := 0; i < n; i++ {
		r := vlib.NewR(c.Seed, "c11", i)
		var g *genType
		if i%10 == 9 {
			g = static
		} else if i%500 == 3 {
			g = &genType{T: reflect.TypeOf(struct{}{})} // nothing declared at all
		} else {
			g = genConfigType(r, r.Chance(0.3), 0)
		}
		id := "n-" + r.Ident(3)
		var prior reflect.Value
		if r.Chance(0.3) {
			prior = reflect.New(g.T).Elem()
			for j, f := range g.Fields {
				if f.Shape == "id" {
					prior.Field(j).SetString(id)
				}
			}
		} else {
			prior = genConfigValue(r, g, 6, id)
		}
		if r.Chance(0.04) {
			// a target that has grown large through earlier merges: slices near the documented limit,
			// with and without spare capacity
			for j, f := range g.Fields {
				if f.Shape == "slice" && f.Tag != "child" {
					n := []int{400, 501, 600, 999, 1000}[r.Intn(5)]
					capn := n + []int{0, 0, 1, 50, 1000 - n}[r.Intn(5)]
					if capn < n {
						capn = n
					}
					prior.Field(j).Set(reflect.MakeSlice(prior.Field(j).Type(), n, capn))
				}
			}
		}
		var declP, declE []string
		shapeOf := map[string]string{}
		for _, f := range g.Fields {
			switch f.Tag {
			case "point":
				declP = append(declP, f.PType)
				shapeOf[f.PType] = f.Shape
			case "edgepoint":
				declE = append(declE, f.PType)
				shapeOf[f.PType] = f.Shape
			}
		}
		undecl := []string{"zz-undeclared", "", "description?", "nodeType", "ID", "id", "F0", "Parent"}
		onlyUndecl := r.Chance(0.15)
		mkList := func(decl []string) data.Points {
			types := undecl
			if !onlyUndecl && len(decl) > 0 {
				types = append(append([]string{}, decl...), decl...)
				types = append(types, undecl[0])
				if r.Chance(0.5) {
					// concentrate on one field: mixes of live and tombstoned points of one type
					types = []string{decl[r.Intn(len(decl))]}
				}
			}
			ps := make(data.Points, r.Intn(13))
			for j := range ps {
				ps[j] = c11Point(r, types)
			}
			if r.Chance(0.2) {
				// one small index deleted (or set) two or three times in the same batch, under both spellings
				// of key 0 and with different odd / even tombstone counts
				t := types[r.Intn(len(types))]
				k := []string{"0", "1", "2", "3", "4", "5"}[r.Intn(6)]
				for q := 0; q < 2+r.Intn(2); q++ {
					p := c11Point(r, []string{t})
					p.Key = k
					if k == "0" && r.Chance(0.5) {
						p.Key = ""
					}
					p.Tombstone = []int{1, 3, 1, 0, 2, -1}[r.Intn(6)]
					ps = append(ps, p)
				}
				r.Shuffle(len(ps), func(a, b int) { ps[a], ps[b] = ps[b], ps[a] })
			}
			return ps
		}
		pts, epts := mkList(declP), mkList(declE)
		entry := r.Intn(3)
		target := deepCopy(prior)
		before := deepCopy(prior)
		wit := map[string]any{"case": i, "seed": c.Seed, "type": g.describe(), "prior": showVal(prior), "points": witnessPoints(pts), "edgePoints": witnessPoints(epts), "entry": []string{"Decode", "MergePoints", "MergeEdgePoints"}[entry]}
		c.Eval(1)
		func() {
			defer func() {
				if e := recover(); e != nil {
					c.Violate("decode-panic:"+fmt.Sprint(wit["entry"]), fmt.Sprintf("%v panicked: %v", wit["entry"], e), wit)
				}
			}()
			var err error
			parent := ""
			switch entry {
			case 0:
				in := data.NodeEdgeChildren{NodeEdge: data.NodeEdge{ID: id, Parent: "p", Points: pts, EdgePoints: epts}}
				if g.Child != nil && r.Chance(0.5) {
					var cdecl []string
					for _, f := range g.Child.Fields {
						if f.Tag == "point" {
							cdecl = append(cdecl, f.PType)
						}
					}
					if len(cdecl) == 0 {
						cdecl = undecl
					}
					for k := 0; k < r.Intn(3); k++ {
						kp := make(data.Points, r.Intn(5))
						for j := range kp {
							kp[j] = c11Point(r, cdecl)
						}
						in.Children = append(in.Children, data.NodeEdgeChildren{NodeEdge: data.NodeEdge{ID: fmt.Sprint("kid", k), Type: childTypeName(g), Parent: id, Points: kp}})
					}
					if onlyUndecl {
						in.Children = nil
					}
				}
				if onlyUndecl {
					in.NodeEdge.ID, in.NodeEdge.Parent = "", "" // id/parent would legitimately be copied
				}
				err = data.Decode(in, target)
			case 1:
				err = data.MergePoints(id, pts, target)
			case 2:
				for j, f := range g.Fields {
					if f.Shape == "parent" {
						parent = target.Field(j).String()
					}
				}
				err = data.MergeEdgePoints(id, parent, epts, target)
			}
			if onlyUndecl {
				if err != nil && len(g.Fields) > 0 { // (a struct without an id field cannot be the target of a merge: that error is fine)
					c.Violate("decode:undeclared-type-error", "points of undeclared types produced an error: "+err.Error(), wit)
					return
				}
				if d := eqVal(before, target, ""); d != "" {
					c.Violate("decode:undeclared-type-changed-target", "points of undeclared types changed the target at "+d, wit)
					return
				}
			}
			// further merges into the same target: what an earlier call left behind (spare capacity,
			// trimmed tails, re-created pointers, nil-ed structs) is the prior state of the next one
			if !onlyUndecl {
				for step := 0; step < 3 && r.Chance(0.35); step++ {
					more := mkList(declP)
					for j := range more {
						if r.Chance(0.3) {
							more[j].Key = fmt.Sprint([]int{0, 1, 2, 3, 499, 500, 501, 998, 999, 1000, 1001}[r.Intn(11)])
						}
						if r.Chance(0.3) {
							more[j].Tombstone = []int{0, 1}[r.Intn(2)]
						}
					}
					wit["later_merge_"+fmt.Sprint(step)] = witnessPoints(more)
					_ = data.MergePoints(id, more, target)
					c.Count("chained_merges", 1)
				}
			}
			cls := fmt.Sprintf("%v err=%v undecl=%v", wit["entry"], err != nil, onlyUndecl)
			seen := map[string]bool{}
			for _, p := range append(append(data.Points{}, pts...), epts...) {
				if s, ok := shapeOf[p.Type]; ok && !seen[s] {
					seen[s] = true
					cls += " " + s
				}
			}
			c.Distinct(cls)
			if err != nil {
				c.Count("returned_error", 1)
			} else {
				c.Count("returned_ok", 1)
			}
			if i < 3 {
				c.Sample(wit)
			}
		}()
	}
	// ---- long lists: thousands of points of one type in one call (tombstoned for the most part, keys inside and
	// outside the limits): no panic, whatever the outcome
	nLong := c.N(60, 600)
	for i := 0; i < nLong && !vlib.Aborted(); i++ {
		r := vlib.NewR(c.Seed, "c11long", i)
		g := genConfigType(r, false, 0)
		var decl []string
		for _, f := range g.Fields {
			if f.Tag == "point" && (f.Shape == "slice" || f.Shape == "array" || f.Shape == "map" || i%4 == 0) {
				decl = append(decl, f.PType)
			}
		}
		if len(decl) == 0 {
			continue
		}
		typ := decl[r.Intn(len(decl))]
		n := []int{1001, 1002, 1003, 1500, 2500, 5000}[r.Intn(6)]
		pts := make(data.Points, n)
		style := r.Intn(4)
		for j := range pts {
			p := c11Point(r, []string{typ})
			switch style {
			case 0: // every one a deletion of another index
				p.Key, p.Tombstone = fmt.Sprint(j), 1
			case 1: // deletions of a few indexes, again and again
				p.Key, p.Tombstone = fmt.Sprint(j%7), []int{1, 3}[r.Intn(2)]
			case 2: // live and deleted mixed, keys up to the limit
				p.Key, p.Tombstone = fmt.Sprint(r.Intn(1001)), []int{0, 1}[r.Intn(2)]
			}
			pts[j] = p
		}
		id := "n-" + r.Ident(3)
		target := genConfigValue(r, g, 6, id)
		entry := r.Intn(2)
		c.Eval(1)
		func() {
			defer func() {
				if e := recover(); e != nil {
					c.Violate("decode-panic:"+[]string{"Decode", "MergePoints"}[entry], fmt.Sprintf("%s panicked on a list of %d points of one type: %v", []string{"Decode", "MergePoints"}[entry], n, e),
						map[string]any{"case": i, "seed": c.Seed, "stage": "long lists", "type": g.describe(), "point_type": typ, "points": n, "style": style, "first_points": witnessPoints(pts[:5])})
				}
			}()
			if entry == 0 {
				_ = data.Decode(data.NodeEdgeChildren{NodeEdge: data.NodeEdge{ID: id, Parent: "p", Points: pts}}, target)
			} else {
				_ = data.MergePoints(id, pts, target)
			}
			c.Count("long_lists_survived", 1)
		}()
	}
	// ---- the other caller: a type that no one has decoded into before is decoded into by eight goroutines at
	// once (same input, own destinations); every one of them gets what a caller on its own gets afterwards
	nConc := c.N(800, 4000)
	for i := 0; i < nConc && !vlib.Aborted(); i++ {
		r := vlib.NewR(c.Seed, "c11conc", i)
		g := genConfigType(r, false, 0)
		// (a field whose name is unique to this trial makes the type a new one for the reflect package and for
		// anything keyed by type)
		fs := []reflect.StructField{}
		for j := 0; j < g.T.NumField(); j++ {
			fs = append(fs, g.T.Field(j))
		}
		fs = append(fs, reflect.StructField{Name: fmt.Sprintf("Uniq%dS%d", i, c.Seed&0xffff), Type: reflect.TypeOf(0), Tag: reflect.StructTag(fmt.Sprintf(`point:"uniq%d"`, i))})
		T := reflect.StructOf(fs)
		id := "n-" + r.Ident(3)
		a := genConfigValue(r, g, 6, id)
		ne, err := data.Encode(a)
		if err != nil {
			continue
		}
		ne.Points = append(ne.Points, data.Point{Type: fmt.Sprintf("uniq%d", i), Value: 7})
		in := data.NodeEdgeChildren{NodeEdge: ne}
		const callers = 16
		outs := make([]reflect.Value, callers)
		errs := make([]error, callers)
		panics := make([]any, callers)
		var wg sync.WaitGroup
		start := make(chan struct{})
		for k := 0; k < callers; k++ {
			outs[k] = reflect.New(T).Elem()
			wg.Add(1)
			go func(k int) {
				defer wg.Done()
				defer func() { panics[k] = recover() }()
				<-start
				errs[k] = data.Decode(in, outs[k])
			}(k)
		}
		close(start)
		wg.Wait()
		ref := reflect.New(T).Elem()
		refErr := data.Decode(in, ref)
		c.Eval(1)
		for k := 0; k < callers; k++ {
			wit := map[string]any{"case": i, "seed": c.Seed, "stage": "concurrent first use of a type", "type": g.describe(), "caller": k}
			if panics[k] != nil {
				c.Violate("decode-panic:Decode", fmt.Sprintf("Decode panicked when %d goroutines decoded into a new type at once: %v", callers, panics[k]), wit)
				break
			}
			if (errs[k] == nil) != (refErr == nil) {
				c.Violate("decode:result-depends-on-other-callers", fmt.Sprintf("caller %d of %d concurrent first users of a type got error %v, a caller on its own gets %v", k, callers, errs[k], refErr), wit)
				break
			}
			if d := eqVal(ref, outs[k], ""); d != "" {
				wit["alone"], wit["concurrent"] = showVal(ref), showVal(outs[k])
				c.Violate("decode:result-depends-on-other-callers", fmt.Sprintf("caller %d of %d concurrent first users of a type decoded something else than a caller on its own (same input) at %s", k, callers, d), wit)
				break
			}
		}
		c.Count("types_first_used_by_sixteen_callers_at_once", 1)
	}
	c.Require("returned_error", 10)
	c.Require("returned_ok", 10)
	return c.Finish()
}
