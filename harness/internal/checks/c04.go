package checks

import (
	"bufio"
	"bytes"
	"encoding/hex"
	"encoding/json"
	"fmt"
	"os"
	"os/exec"
	"path/filepath"
	"strconv"
	"strings"
	"sync"
	"sync/atomic"
	"syscall"
	"time"

	"github.com/nats-io/nats.go"
	"github.com/simpleiot/simpleiot/client"
	"github.com/simpleiot/simpleiot/data"
	"github.com/simpleiot/simpleiot/store"

	"verifharness/internal/vlib"
)

func init() { Registry["C04"] = runC04 }

// ---- deterministic operation lists (regenerated identically by parent and worker)

type c04Op struct {
	N      int
	Writer int
	Kind   string // create, nodePoints, edgePoints, mirror
	Node   string
	Parent string
	Points data.Points
	// Lib: the first (nodePoints) and second (create) half of one client.SendNode call
	Lib bool
}

func (o c04Op) subject() string {
	if o.Kind == "nodePoints" {
		return vlib.NodeSubj(o.Node)
	}
	return vlib.EdgeSubj(o.Node, o.Parent)
}

// c04Ops generates the operation list of one phase. Timestamps and values are
// unique so that every stored point names the batch it came from.
func c04Ops(seed int64, phase, writers int, root string) []c04Op {
	r := vlib.NewR(seed, "c04ops", phase)
	clock := int64(1750000000e9) + int64(phase)*1e12
	ts := func() time.Time { clock += 1000; return time.Unix(0, clock) }
	uniq := 0
	val := func() float64 { uniq++; return float64(phase*1000000 + uniq) }
	var ops []c04Op
	add := func(o c04Op) {
		o.N = len(ops)
		ops = append(ops, o)
	}
	pfx := fmt.Sprintf("k%d", phase)
	libCreate := false
	mkCreate := func(w int, id, parent, typ string) {
		pts := data.Points{
			{Type: data.PointTypeTombstone, Time: ts(), Value: 0, Origin: "w"},
			{Type: data.PointTypeNodeType, Text: typ},
			{Type: "role", Time: ts(), Text: fmt.Sprintf("role-%v", val()), Origin: "w"},
		}
		// (what a new edge needs is its node type; the other points are optional - except through the library,
		// which adds a tombstone point of its own when none is given)
		vary := r.Intn(8)
		if libCreate {
			vary = 7
		}
		switch vary {
		case 0:
			pts = pts[1:2]
		case 1:
			pts = pts[1:]
		case 2:
			pts = pts[:2]
		}
		add(c04Op{Writer: w, Kind: "create", Node: id, Parent: parent, Points: pts})
	}
	nodePts := func(n int) data.Points {
		types := []string{"description", "value", "units", "a", "b", "c", "d"}
		pts := data.Points{}
		seen := map[string]bool{}
		for len(pts) < n {
			p := data.Point{Type: types[r.Intn(len(types))], Key: []string{"", "1", "k"}[r.Intn(3)], Time: ts(), Value: val(), Origin: "w"}
			p.Text = fmt.Sprintf("t%v", p.Value)
			if r.Chance(0.3) {
				p.Data = []byte(fmt.Sprintf("data-%v", p.Value))
			}
			k := p.Type + "/" + p.Key
			if seen[k] {
				continue
			}
			seen[k] = true
			pts = append(pts, p)
		}
		return pts
	}
	// skeleton (writer 0): 4 deep with a diamond, under the instance root
	g1, g2, g3, g4 := pfx+"-g1", pfx+"-g2", pfx+"-g3", pfx+"-g4"
	mkCreate(0, g1, root, "group")
	mkCreate(0, g2, g1, "group")
	mkCreate(0, g3, g1, "group")
	mkCreate(0, g4, g2, "group")
	leaf := pfx + "-leaf"
	mkCreate(0, leaf, g4, "variable")
	add(c04Op{Writer: 0, Kind: "mirror", Node: leaf, Parent: g3, Points: data.Points{{Type: data.PointTypeTombstone, Time: ts(), Origin: "w"}, {Type: data.PointTypeNodeType, Text: "variable"}}})
	add(c04Op{Writer: 0, Kind: "nodePoints", Node: leaf, Points: nodePts(3)})
	// points-first creation split by the crash: points are written (and acknowledged) for a node that
	// has no edge yet; its edge is created late in this phase, or only in the next phase (after the
	// crash and the restart). Once the node is attached the acknowledged points must be there.
	orph := pfx + "-orph"
	add(c04Op{Writer: 0, Kind: "nodePoints", Node: orph, Points: nodePts(2 + r.Intn(3))})
	if phase > 1 {
		mkCreate(0, fmt.Sprintf("k%d-orph", phase-1), g1, "variable")
	}
	orphLate := r.Chance(0.5)
	skeleton := len(ops)
	known := map[int][]string{} // writer -> nodes it may touch: skeleton + own creations
	placements := map[string][]string{g1: {root}, g2: {g1}, g3: {g1}, g4: {g2}, leaf: {g4, g3}}
	for w := 0; w < writers; w++ {
		known[w] = []string{g1, g2, g3, g4, leaf}
	}
	total := skeleton + 40 + r.Intn(60)
	created := 0
	for len(ops) < total {
		w := r.Intn(writers)
		ks := known[w]
		switch pick := r.Intn(10); {
		case pick == 5 && r.Chance(0.4):
			// one large batch (hundreds of identities): many pages and WAL frames inside one transaction
			n := 300 + r.Intn(700)
			if r.Chance(0.5) {
				n = 1001 + r.Intn(600)
			}
			pts := make(data.Points, 0, n)
			typ := []string{"arr", "tbl"}[r.Intn(2)]
			for j := 0; j < n; j++ {
				p := data.Point{Type: typ, Key: fmt.Sprint(j + 1), Time: ts(), Value: val(), Origin: "w"}
				p.Text = fmt.Sprintf("t%v", p.Value)
				pts = append(pts, p)
			}
			add(c04Op{Writer: w, Kind: "nodePoints", Node: ks[r.Intn(len(ks))], Points: pts})
		case pick < 6:
			add(c04Op{Writer: w, Kind: "nodePoints", Node: ks[r.Intn(len(ks))], Points: nodePts(1 + r.Intn(5))})
		case pick < 8:
			n := ks[r.Intn(len(ks))]
			ps := placements[n]
			add(c04Op{Writer: w, Kind: "edgePoints", Node: n, Parent: ps[r.Intn(len(ps))], Points: data.Points{{Type: "role", Time: ts(), Text: fmt.Sprintf("role-%v", val()), Origin: "w"}, {Type: "sortOrder", Time: ts(), Value: val(), Origin: "w"}}})
		default:
			created++
			id := fmt.Sprintf("%s-w%d-n%d", pfx, w, created)
			parent := ks[r.Intn(len(ks))]
			if r.Chance(0.35) {
				// the library's way of creating a node: client.SendNode with the node's points (many, so that
				// storing them takes a while) and its edge in one call; when it returns without error both
				// count as acknowledged
				id += "-orph" // (its points may be stored before it has an edge)
				n := 200 + r.Intn(1300)
				pts := make(data.Points, 0, n)
				for j := 0; j < n; j++ {
					p := data.Point{Type: "cfg", Key: fmt.Sprint(j + 1), Time: ts(), Value: val(), Origin: "w"}
					p.Text = fmt.Sprintf("t%v", p.Value)
					pts = append(pts, p)
				}
				add(c04Op{Writer: w, Kind: "nodePoints", Node: id, Points: pts, Lib: true})
				libCreate = true
				mkCreate(w, id, parent, "variable")
				libCreate = false
				ops[len(ops)-1].Lib = true
				continue // (no later operation builds on this node: the library gives up after a second, and then it may not exist)
			}
			mkCreate(w, id, parent, "variable")
			known[w] = append(known[w], id)
			placements[id] = []string{parent}
		}
	}
	if orphLate {
		mkCreate(0, orph, g2, "variable")
	}
	if r.Chance(0.5) {
		// a burst: 150-350 batches sent without waiting for the replies (writer 99), so that the store
		// works through a backlog of requests while the other writers carry on
		m := 150 + r.Intn(200)
		targets := []string{g1, g2, g3, g4, leaf}
		for b := 0; b < m; b++ {
			np := 5 + r.Intn(30)
			pts := make(data.Points, 0, np)
			for j := 0; j < np; j++ {
				p := data.Point{Type: fmt.Sprintf("bu%d", b), Key: fmt.Sprint(j + 1), Time: ts(), Value: val(), Origin: "w"}
				p.Text = fmt.Sprintf("t%v", p.Value)
				pts = append(pts, p)
			}
			add(c04Op{Writer: 99, Kind: "nodePoints", Node: targets[r.Intn(len(targets))], Points: pts})
		}
	}
	return ops
}

// ---- worker: runs inside the process that gets killed

var c04Out sync.Mutex

// c04WorkerSite is the worker's kill switch (the store's hook sites and the worker's own)
var c04WorkerSite func(string, ...any)

func c04Say(s string) {
	c04Out.Lock()
	_, _ = os.Stdout.Write([]byte(s + "\n"))
	c04Out.Unlock()
}

func c04Worker(args []string) int {
	dir, seed, phase, writers := args[0], int64(0), 0, 1
	fmt.Sscan(args[1], &seed)
	fmt.Sscan(args[2], &phase)
	fmt.Sscan(args[3], &writers)
	file := filepath.Join(dir, "store.sqlite")
	if len(args) >= 6 && args[4] != "" {
		// die at the k-th hit of a hook site (statement boundaries inside transactions, steps of first-time initialisation)
		site, k, hits := args[4], 0, int64(0)
		fmt.Sscan(args[5], &k)
		c04WorkerSite = func(s string, _ ...any) {
			if s == site && atomic.AddInt64(&hits, 1) == int64(k) {
				c04Say("SITEKILL " + site)
				_ = syscall.Kill(os.Getpid(), syscall.SIGKILL)
				select {}
			}
		}
		store.VerifSetHook(c04WorkerSite)
	}
	in, err := vlib.StartInstance(vlib.InstCfg{StoreFile: file})
	if err != nil {
		c04Say("STARTERR " + err.Error())
		return 3
	}
	c04Say("ROOT " + in.RootID)
	if key, err := readJWTKey(file); err == nil && len(key) > 0 {
		c04Say("KEY " + hex.EncodeToString(key))
	}
	ops := c04Ops(seed, phase, writers, in.RootID)
	run := func(w int, from, to int) {
		nc, err := in.Connect()
		if err != nil {
			c04Say("CONNERR " + err.Error())
			return
		}
		for oi, o := range ops[from:to] {
			if o.Writer != w && w >= 0 {
				continue
			}
			if o.Lib && o.Kind == "create" {
				continue // done together with the op before it
			}
			if o.Lib {
				cr := ops[from+oi+1]
				ne := data.NodeEdge{ID: o.Node, Parent: cr.Parent, Points: append(data.Points{}, o.Points...)}
				for _, p := range cr.Points {
					if p.Type == data.PointTypeNodeType {
						ne.Type = p.Text
					} else {
						ne.EdgePoints = append(ne.EdgePoints, p)
					}
				}
				c04Say(fmt.Sprintf("START %d", o.N))
				c04Say(fmt.Sprintf("START %d", cr.N))
				if err := client.SendNode(nc, ne, "w"); err != nil {
					c04Say(fmt.Sprintf("SENDERR %d %v", o.N, err))
					c04Say(fmt.Sprintf("SENDERR %d %v", cr.N, err))
					continue
				}
				c04Say(fmt.Sprintf("ACK %d", o.N))
				c04Say(fmt.Sprintf("ACK %d", cr.N))
				if c04WorkerSite != nil {
					c04WorkerSite("worker.afterSendNode")
				}
				continue
			}
			c04Say(fmt.Sprintf("START %d", o.N))
			e, err := vlib.SendAck(nc, o.subject(), o.Points)
			if err != nil {
				c04Say(fmt.Sprintf("SENDERR %d %v", o.N, err))
				continue
			}
			if e != "" {
				c04Say(fmt.Sprintf("REFUSED %d %s", o.N, e))
				continue
			}
			c04Say(fmt.Sprintf("ACK %d", o.N))
		}
	}
	skeleton := 7
	run(-1, 0, skeleton) // skeleton: one writer, everything
	var wg sync.WaitGroup
	for w := 0; w < writers; w++ {
		wg.Add(1)
		go func(w int) { defer wg.Done(); run(w, skeleton, len(ops)) }(w)
	}
	// writer 99: pipelined requests, replies collected as they come
	wg.Add(1)
	go func() {
		defer wg.Done()
		nc, err := in.Connect()
		if err != nil {
			c04Say("CONNERR " + err.Error())
			return
		}
		inbox := nats.NewInbox()
		var pending int64
		got := make(chan struct{}, 1024)
		_, err = nc.Subscribe(inbox+".*", func(m *nats.Msg) {
			n := m.Subject[len(inbox)+1:]
			if len(m.Data) == 0 {
				c04Say("ACK " + n)
			} else {
				c04Say("REFUSED " + n + " " + string(m.Data))
			}
			got <- struct{}{}
		})
		if err != nil {
			c04Say("CONNERR " + err.Error())
			return
		}
		for _, o := range ops[skeleton:] {
			if o.Writer != 99 {
				continue
			}
			b, err := o.Points.ToPb()
			if err != nil {
				continue
			}
			c04Say(fmt.Sprintf("START %d", o.N))
			if err := nc.PublishRequest(o.subject(), fmt.Sprintf("%s.%d", inbox, o.N), b); err != nil {
				c04Say(fmt.Sprintf("SENDERR %d %v", o.N, err))
				continue
			}
			pending++
		}
		_ = nc.Flush()
		deadline := time.After(120 * time.Second)
		for ; pending > 0; pending-- {
			select {
			case <-got:
			case <-deadline:
				c04Say("BURSTTIMEOUT")
				return
			}
		}
	}()
	wg.Wait()
	c04Say("DONE")
	in.StopKeepFiles()
	return 0
}

// ---- root replacement (what ImportNodes to "root" does): one edge write with parent "root" makes another
// node the instance root. Worker: opens the file, does that one write, stops. Recovery reader: reports
// which root the instance runs with and whether the new root edge exists.

const c04NewRoot = "rr-new-root"

func c04RootReplace(args []string) int {
	file := filepath.Join(args[0], "store.sqlite")
	in, err := vlib.StartInstance(vlib.InstCfg{StoreFile: file})
	if err != nil {
		c04Say("STARTERR " + err.Error())
		return 3
	}
	c04Say("ROOT " + in.RootID)
	if len(args) > 1 && args[1] == "prepare" {
		c04Say("DONE")
		in.StopKeepFiles()
		return 0
	}
	nc, err := in.Connect()
	if err != nil {
		return 3
	}
	c04Say("START 0")
	e, err := vlib.SendAck(nc, vlib.EdgeSubj(c04NewRoot, "root"), data.Points{{Type: data.PointTypeTombstone, Time: time.Unix(1760000000, 0), Origin: "w"}, {Type: data.PointTypeNodeType, Text: "device"}, {Type: "role", Time: time.Unix(1760000000, 1), Text: "new root", Origin: "w"}})
	if err == nil && e == "" {
		c04Say("ACK 0")
	} else {
		c04Say(fmt.Sprintf("REFUSED 0 %v %s", err, e))
	}
	c04Say("DONE")
	in.StopKeepFiles()
	return 0
}

func c04RootRecover(args []string) int {
	file := filepath.Join(args[0], "store.sqlite")
	in, err := vlib.StartInstance(vlib.InstCfg{StoreFile: file})
	if err != nil {
		c04Say("RRERR " + err.Error())
		return 0
	}
	nc, _ := in.Connect()
	ns, err := client.GetNodes(nc, "all", c04NewRoot, "", true)
	c04Say(fmt.Sprintf("RR root=%s edge=%v err=%v", in.RootID, len(ns) > 0, err != nil && err != data.ErrDocumentNotFound))
	in.StopKeepFiles()
	return 0
}

// ---- recovery child: opens the store again (a failure to open ends this process, not the check)

type c04Dump struct {
	Root   string
	Key    string
	Nodes  []data.NodeEdge
	Verify string
	Err    string
}

func c04Recover(args []string) int {
	file := filepath.Join(args[0], "store.sqlite")
	out := c04Dump{}
	in, err := vlib.StartInstance(vlib.InstCfg{StoreFile: file})
	if err != nil {
		out.Err = err.Error()
	} else {
		out.Root = in.RootID
		if key, err := readJWTKey(file); err == nil {
			out.Key = hex.EncodeToString(key)
		}
		nc, _ := in.Connect()
		roots, err := client.GetNodes(nc, "root", "all", "", true)
		if err != nil {
			out.Err = "root read: " + err.Error()
		}
		if len(roots) != 1 {
			out.Err = fmt.Sprintf("%d root nodes after recovery", len(roots))
		}
		w, err := vlib.Walk(nc)
		if err != nil {
			out.Err = "walk: " + err.Error()
		}
		for _, p := range w {
			out.Nodes = append(out.Nodes, p)
		}
		if s, err := adminReq(nc, "admin.storeVerify"); err != nil || s != "" {
			out.Verify = fmt.Sprint(s, err)
		}
		in.StopKeepFiles()
	}
	b, _ := json.Marshal(out)
	os.Stdout.Write(append([]byte("DUMP "), append(b, '\n')...))
	return 0
}

// ---- parent

type c04Run struct {
	Started, Acked map[int]bool
	Refused        map[int]string
	Root, Key      string
	Done           bool
	Lines          []string
}

func parseWorkerLog(out string) c04Run {
	r := c04Run{Started: map[int]bool{}, Acked: map[int]bool{}, Refused: map[int]string{}}
	for _, l := range strings.Split(out, "\n") {
		f := strings.Fields(l)
		if len(f) == 0 {
			continue
		}
		n := -1
		if len(f) > 1 {
			n, _ = strconv.Atoi(f[1])
		}
		switch f[0] {
		case "START":
			r.Started[n] = true
		case "ACK":
			r.Acked[n] = true
		case "REFUSED":
			r.Refused[n] = l
		case "ROOT":
			r.Root = f[1]
		case "KEY":
			r.Key = f[1]
		case "DONE":
			r.Done = true
		}
		if f[0] != "START" && f[0] != "ACK" {
			r.Lines = append(r.Lines, l)
		}
	}
	return r
}

func runC04(tier string, args []string) int {
	if len(args) > 0 && args[0] == "worker" {
		return c04Worker(args[1:])
	}
	if len(args) > 0 && args[0] == "recover" {
		return c04Recover(args[1:])
	}
	if len(args) > 0 && args[0] == "rootreplace" {
		return c04RootReplace(args[1:])
	}
	if len(args) > 0 && args[0] == "rootrecover" {
		return c04RootRecover(args[1:])
	}
	c := vlib.NewCtx("C04", tier, "fault_enumeration")
	c.SetRule("per case a writer process (full instance + 1-4 writer connections issuing a deterministic list of acknowledged batches with unique timestamps/values: node batches of 1-5 points and occasional batches of 300-1400 points, in half of the phases a burst of 150-350 pipelined batches from one more connection (the store then works through a backlog), edge creation with node type and edge points, edge-point updates, a mirror, points for a node whose edge is only created later in the phase or after the crash in the next phase, over a 4-deep diamond-shaped tree) is killed with SIGKILL at a crash instant chosen from: (a) the N-th write(2) to the store file or its WAL, injected by strace, N from a PRNG list covering first-time initialisation (small N) and steady state, (b) the k-th hit of a verif-tag hook site inside the store (between the statements of a write transaction, between database write and rebroadcast, between the separate steps of first-time initialisation), (c) a parent-side kill after k acknowledged operations, (d) no kill (clean stop). In addition one operation - the replacement of the instance root - is killed at every one of its write(2) calls in turn. The file is then reopened by a fresh process (full instance), dumped and judged; the recovered file is run and killed a second time (crash during reopening / continued use). A third of the node creations go through the library's client.SendNode with 200-1500 points (its return without error counts as the acknowledgement of the points and of the edge); one kill kind is death at the moment SendNode has returned. One phase in nine is not killed but has every write(2) to the store file or its log fail with ENOSPC from some point on (strace fault injection): what is acknowledged before or after that point must be in the file when the process has stopped. Oracle: reopen succeeds with one root; root id and signing key equal the ones announced before the kill; every acknowledged batch is present (stored timestamp >= each of its points); every started batch is visible completely or not at all; no stored harness point that was never sent; C03 Merkle oracle on the recovered tree; admin.storeVerify silent. distinct = (phase, kill kind, operation kind open at death, init|steady, write-index bucket)")
	c.Assume("process death only (SIGKILL): the page cache survives, which is what the property states; power loss is out of scope")
	self, _ := os.Executable()
	if _, err := exec.LookPath("strace"); err != nil {
		c.CheckError("strace not found")
		return c.Finish()
	}
	// ---- one operation, every crash instant: the write that replaces the instance root (an edge below
	// "root" for another node) is killed at its 1st, 2nd, ... write(2) to the store file or its WAL until a
	// run completes; after each crash the store must run with the old root and no new root edge, or with the
	// new root and its edge - never one without the other
	rootEnum := make(chan struct{})
	go func() {
		defer close(rootEnum)
		baseDir, err := os.MkdirTemp("", "verif-c04root-")
		if err != nil {
			return
		}
		defer os.RemoveAll(baseDir)
		prep := exec.Command(self, "C04", tier, "rootreplace", baseDir, "prepare")
		prep.Env = append(os.Environ(), "VERIF_PORT_BASE=58000")
		out, _ := prep.CombinedOutput()
		oldRoot := ""
		for _, l := range strings.Split(string(out), "\n") {
			if strings.HasPrefix(l, "ROOT ") {
				oldRoot = strings.TrimSpace(l[5:])
			}
		}
		if oldRoot == "" {
			c.Inconclusive("root replacement: preparation failed: " + tail(string(out), 300))
			return
		}
		for n := 1; n <= 80 && !vlib.Aborted(); n++ {
			dir, err := os.MkdirTemp("", "verif-c04rootN-")
			if err != nil {
				return
			}
			for _, f := range []string{"store.sqlite", "store.sqlite-wal", "store.sqlite-shm"} {
				if b, err := os.ReadFile(filepath.Join(baseDir, f)); err == nil {
					_ = os.WriteFile(filepath.Join(dir, f), b, 0o644)
				}
			}
			file := filepath.Join(dir, "store.sqlite")
			cmd := exec.Command("strace", "-f", "-qq", "-o", filepath.Join(dir, "strace.log"), "-P", file, "-P", file+"-wal", "-e", "trace=write,fsync", "-e", fmt.Sprintf("inject=write:signal=SIGKILL:when=%d", n), self, "C04", tier, "rootreplace", dir)
			cmd.Env = append(os.Environ(), "VERIF_PORT_BASE=58000")
			wout, _ := cmd.CombinedOutput()
			completed := strings.Contains(string(wout), "DONE")
			acked := strings.Contains(string(wout), "ACK 0")
			rc := exec.Command(self, "C04", tier, "rootrecover", dir)
			rc.Env = append(os.Environ(), "VERIF_PORT_BASE=58400")
			rout, _ := rc.CombinedOutput()
			os.RemoveAll(dir)
			c.Eval(1)
			var rootNow, edge string
			for _, l := range strings.Split(string(rout), "\n") {
				if strings.HasPrefix(l, "RR root=") {
					f := strings.Fields(l)
					rootNow, edge = strings.TrimPrefix(f[1], "root="), strings.TrimPrefix(f[2], "edge=")
				}
			}
			wit := map[string]any{"killed_at_write": n, "worker_completed": completed, "acknowledged": acked, "old_root": oldRoot, "root_after_recovery": rootNow, "new_root_edge_exists": edge, "recovery_output": tail(string(rout), 400)}
			switch {
			case rootNow == "":
				c.Violate("crash:store-does-not-reopen", "after a crash inside a root replacement the store does not come up", wit)
				return
			case rootNow == oldRoot && edge == "true":
				c.Violate("crash:root-replacement-partly-applied", fmt.Sprintf("killed at write %d of a root replacement: the edge root -> %s is in the store, but the instance still runs with root %s", n, c04NewRoot, oldRoot), wit)
				return
			case rootNow == c04NewRoot && edge != "true", rootNow != oldRoot && rootNow != c04NewRoot:
				c.Violate("crash:root-replacement-partly-applied", fmt.Sprintf("killed at write %d of a root replacement: the instance runs with root %s, new root edge exists=%s", n, rootNow, edge), wit)
				return
			case acked && rootNow != c04NewRoot:
				c.Violate("crash:acknowledged-write-lost", "the root replacement was acknowledged but the instance runs with the old root after recovery", wit)
				return
			}
			c.Count("root_replacement_crash_instants", 1)
			c.Distinct(fmt.Sprintf("root replacement killed at write %d -> root %s", n, map[bool]string{true: "new", false: "old"}[rootNow == c04NewRoot]))
			if completed {
				return // the kill did not fire any more: every write of the operation has been a crash instant
			}
		}
	}()
	nCases := c.N(120, 1500)
	var portMu sync.Mutex
	portSlot := 0
	vlib.Parallel(nCases, 8, func(i int) {
		r := vlib.NewR(c.Seed, "c04", i)
		dir, err := os.MkdirTemp("", "verif-c04-")
		if err != nil {
			c.Inconclusive(err.Error())
			return
		}
		defer os.RemoveAll(dir)
		file := filepath.Join(dir, "store.sqlite")
		for _, f := range []string{file, file + "-wal"} {
			_ = os.WriteFile(f, nil, 0o644)
		}
		portMu.Lock()
		portSlot++
		base := 40000 + (portSlot%200)*60
		portMu.Unlock()
		writers := 1 + r.Intn(4)
		seed := r.Int63()
		type phaseRes struct {
			run  c04Run
			ops  []c04Op
			kill string
		}
		var phases []phaseRes
		root, key := "", ""
		for phase := 1; phase <= 2; phase++ {
			// choose the crash instant
			kind := []string{"strace", "strace", "strace", "ackkill", "clean", "site", "site", "libkill", "ioerr"}[r.Intn(9)]
			n := 0
			site := ""
			switch kind {
			case "site":
				sites := []string{"sqlite.nodePoints.beforeHash", "sqlite.nodePoints.beforeCommit", "sqlite.edgePoints.beforeHash", "sqlite.edgePoints.beforeCommit", "sqlite.edgePoints.afterEdgeInsert",
					"store.afterNodeWrite", "store.afterEdgeWrite"}
				if phase == 1 && r.Chance(0.4) {
					sites = []string{"sqlite.initRoot.afterRootPoints", "sqlite.initRoot.afterRootEdge", "sqlite.initRoot.afterAdminPoints", "sqlite.initRoot.afterAdminEdge", "sqlite.initJwtKey.beforeWrite"}
					n = 1
				} else {
					n = 1 + r.Intn(40)
				}
				site = sites[r.Intn(len(sites))]
			case "strace":
				switch r.Intn(4) {
				case 0:
					n = 1 + r.Intn(25) // first-time initialisation / reopen
				case 1:
					n = 25 + r.Intn(60)
				default:
					n = 60 + r.Intn(400)
				}
			case "ioerr":
				// not a death but what often comes before one: from its n-th write(2) on, every write of a thread to
				// the store file or its log fails (disk full); the process lives on, is stopped at the end of
				// the phase, and whatever it acknowledged - before or after the disk filled up - has to be in the file
				n = 40 + r.Intn(400)
			case "ackkill":
				n = r.Intn(50)
			case "libkill":
				// death at the moment client.SendNode has returned without error for the n-th time
				kind, site, n = "site", "worker.afterSendNode", 1+r.Intn(3)
			}
			var cmd *exec.Cmd
			slog := filepath.Join(dir, fmt.Sprintf("strace%d.log", phase))
			wargs := []string{"C04", tier, "worker", dir, fmt.Sprint(seed), fmt.Sprint(phase), fmt.Sprint(writers)}
			if kind == "site" {
				wargs = append(wargs, site, fmt.Sprint(n))
			}
			if kind == "strace" || kind == "ioerr" {
				inj := fmt.Sprintf("inject=write:signal=SIGKILL:when=%d", n)
				if kind == "ioerr" {
					inj = fmt.Sprintf("inject=write:error=ENOSPC:when=%d+", n) // (a single failure is retried by the VFS and goes unnoticed)
				}
				sargs := append([]string{"-f", "-qq", "-o", slog, "-P", file, "-P", file + "-wal", "-e", "trace=write,fsync", "-e", inj, self}, wargs...)
				cmd = exec.Command("strace", sargs...)
			} else {
				cmd = exec.Command(self, wargs...)
			}
			cmd.Env = append(os.Environ(), fmt.Sprintf("VERIF_PORT_BASE=%d", base))
			cmd.SysProcAttr = &syscall.SysProcAttr{Setpgid: true}
			stdout, _ := cmd.StdoutPipe()
			var stderr bytes.Buffer
			cmd.Stderr = &stderr
			if err := cmd.Start(); err != nil {
				c.Inconclusive("cannot start worker: " + err.Error())
				return
			}
			var outBuf strings.Builder
			acks := 0
			killed := false
			timer := time.AfterFunc(120*time.Second, func() { _ = syscall.Kill(-cmd.Process.Pid, syscall.SIGKILL) })
			sc := bufio.NewScanner(stdout)
			sc.Buffer(make([]byte, 1<<20), 1<<20)
			for sc.Scan() {
				l := sc.Text()
				outBuf.WriteString(l + "\n")
				if strings.HasPrefix(l, "ACK ") {
					acks++
					if kind == "ackkill" && acks > n && !killed {
						killed = true
						_ = syscall.Kill(-cmd.Process.Pid, syscall.SIGKILL)
					}
				}
			}
			_ = cmd.Wait()
			timer.Stop()
			run := parseWorkerLog(outBuf.String())
			c.Eval(1)
			if run.Root != "" {
				if root != "" && run.Root != root {
					c.Violate("crash:root-id-changed", fmt.Sprintf("instance root was %s, after the crash the store runs with root %s", root, run.Root), map[string]any{"case": i, "phase": phase, "log": run.Lines})
					return
				}
				root = run.Root
			}
			if run.Key != "" {
				if key != "" && run.Key != key {
					c.Violate("crash:signing-key-changed", "the token signing key differs from the one readable before the crash", map[string]any{"case": i, "phase": phase})
					return
				}
				key = run.Key
			}
			for _, l := range run.Lines {
				if strings.HasPrefix(l, "STARTERR") && (phase == 2 || root != "") {
					c.Violate("crash:store-does-not-reopen", "the worker could not start on the file after a crash: "+l, map[string]any{"case": i, "phase": phase, "stderr": tail(stderr.String(), 3000)})
					return
				}
			}
			ops := c04Ops(seed, phase, writers, run.Root)
			phases = append(phases, phaseRes{run, ops, kind})
			// where did it die
			openKinds := []string{}
			for _, o := range ops {
				if run.Started[o.N] && !run.Acked[o.N] && run.Refused[o.N] == "" {
					openKinds = append(openKinds, o.Kind)
				}
			}
			writeIdx := 0
			if b, err := os.ReadFile(slog); err == nil {
				writeIdx = strings.Count(string(b), " write(")
			}
			stage := "steady"
			if run.Root == "" {
				stage = "init"
			} else if len(run.Started) == 0 {
				stage = "before-first-op"
			}
			if run.Done {
				stage = "completed"
			}
			open := "none"
			if len(openKinds) > 0 {
				open = openKinds[0]
				c.Count("kills_inside_a_write", 1)
			}
			c.Distinct(fmt.Sprintf("phase%d %s%s stage=%s open=%s writes~%d", phase, kind, site, stage, open, writeIdx/50*50))
			c.Count("kills:"+kind, 1)
			if kind == "ioerr" && len(run.Refused) > 0 {
				c.Count("failed_writes_answered_with_an_error", int64(len(run.Refused)))
			}

			// ---- recovery in a fresh process
			rc := exec.Command(self, "C04", tier, "recover", dir)
			rc.Env = append(os.Environ(), fmt.Sprintf("VERIF_PORT_BASE=%d", base+30))
			var rout, rerr bytes.Buffer
			rc.Stdout, rc.Stderr = &rout, &rerr
			rtimer := time.AfterFunc(120*time.Second, func() { _ = rc.Process.Kill() })
			rerrRun := rc.Run()
			rtimer.Stop()
			var dump c04Dump
			found := false
			for _, l := range strings.Split(rout.String(), "\n") {
				if strings.HasPrefix(l, "DUMP ") {
					found = json.Unmarshal([]byte(l[5:]), &dump) == nil
				}
			}
			wit := map[string]any{"case": i, "seed": c.Seed, "phase": phase, "kill": kind, "site": site, "n": n, "stage": stage, "open_ops": openKinds, "write_index": writeIdx, "worker_log": run.Lines}
			if !found || dump.Err != "" {
				wit["recover_stdout"], wit["recover_stderr"] = tail(rout.String(), 2000), tail(rerr.String(), 4000)
				c.Violate("crash:store-does-not-reopen", fmt.Sprintf("the store file cannot be opened / read after a crash (%v %s)", rerrRun, dump.Err), wit)
				return
			}
			if root != "" && dump.Root != root {
				c.Violate("crash:root-id-changed", fmt.Sprintf("instance root was %s, after recovery it is %s", root, dump.Root), wit)
				return
			}
			root = dump.Root
			if key != "" && dump.Key != key {
				c.Violate("crash:signing-key-changed", "the token signing key after recovery differs from the one readable before the crash", wit)
				return
			}
			if dump.Key != "" {
				key = dump.Key
			}
			if dump.Verify != "" {
				c.Violate("crash:storeVerify-complains", "admin.storeVerify after recovery: "+dump.Verify, wit)
				return
			}
			// index the recovered content
			w := map[string]vlib.Placement{}
			nodePts := map[string]map[[2]string]data.Point{}
			edgePts := map[[2]string]map[[2]string]data.Point{}
			for _, ne := range dump.Nodes {
				w[ne.Parent+"/"+ne.ID] = ne
				if nodePts[ne.ID] == nil {
					nodePts[ne.ID] = map[[2]string]data.Point{}
				}
				for _, p := range ne.Points {
					nodePts[ne.ID][[2]string{p.Type, p.Key}] = p
				}
				ek := [2]string{ne.Parent, ne.ID}
				edgePts[ek] = map[[2]string]data.Point{}
				for _, p := range ne.EdgePoints {
					edgePts[ek][[2]string{p.Type, p.Key}] = p
				}
			}
			ref := vlib.RefHashes(w)
			for k, p := range w {
				if p.Hash != ref[k] {
					wit["tree"] = vlib.DumpString(w)
					c.Violate("crash:hashes-out-of-step-with-points", fmt.Sprintf("placement %s: stored hash %08x, Merkle hash of the recovered content %08x", k, p.Hash, ref[k]), wit)
					return
				}
			}
			// judge all batches of all phases so far
			norm := func(p data.Point) [2]string {
				k := p.Key
				if k == "" {
					k = "0"
				}
				return [2]string{p.Type, k}
			}
			placed := map[string]bool{} // nodes that have at least one edge in the recovered tree
			for ek := range edgePts {
				placed[ek[1]] = true
			}
			// nodes that hang below the root through a chain of acknowledged creations (in any phase so far): only
			// what happens on or below those is observable
			createAcked := map[string]bool{dump.Root: true}
			for grew := true; grew; {
				grew = false
				for _, ph := range phases {
					for _, o := range ph.ops {
						if (o.Kind == "create" || o.Kind == "mirror") && ph.run.Acked[o.N] && createAcked[o.Parent] && !createAcked[o.Node] {
							createAcked[o.Node] = true
							grew = true
						}
					}
				}
			}
			sent := map[string]bool{} // every harness point ever started: "node|edge id type key ts"
			for _, ph := range phases {
				for _, o := range ph.ops {
					if !ph.run.Started[o.N] {
						continue
					}
					for _, p := range o.Points {
						sent[fmt.Sprint(o.Kind == "nodePoints", o.Node, o.Parent, norm(p), p.Time.UnixNano())] = true
					}
				}
			}
			for pi, ph := range phases {
				for _, o := range ph.ops {
					if !ph.run.Started[o.N] {
						continue
					}
					lookup := func(p data.Point) (data.Point, bool) {
						if o.Kind == "nodePoints" {
							sp, ok := nodePts[o.Node][norm(p)]
							return sp, ok
						}
						sp, ok := edgePts[[2]string{o.Parent, o.Node}][norm(p)]
						return sp, ok
					}
					present, visible := 0, 0
					stored := 0
					for _, p := range o.Points {
						if p.Type == data.PointTypeNodeType {
							continue
						}
						stored++
						sp, ok := lookup(p)
						if ok && sp.Time.UnixNano() >= p.Time.UnixNano() {
							present++
						}
						if ok && sp.Time.UnixNano() == p.Time.UnixNano() {
							visible++
							if sp.Value != p.Value || sp.Text != p.Text || sp.Origin != p.Origin || string(sp.Data) != string(p.Data) {
								wit["op"] = o
								c.Violate("crash:torn-point", fmt.Sprintf("op %d: stored point has the batch's timestamp but other content", o.N), wit)
								return
							}
						}
					}
					edgeExists := true
					if o.Kind != "nodePoints" {
						_, edgeExists = edgePts[[2]string{o.Parent, o.Node}]
					}
					wit2 := func() map[string]any {
						m := map[string]any{"op": o, "op_phase": pi + 1, "acked": ph.run.Acked[o.N]}
						for k, v := range wit {
							m[k] = v
						}
						return m
					}
					if o.Kind == "nodePoints" && strings.HasSuffix(o.Node, "-orph") && !placed[o.Node] {
						// written before the node has an edge: not observable through the API until it is attached
						c.Count("orphan_batches_not_yet_observable", 1)
						continue
					}
					// an operation on (or below) a node whose own creation was refused or never finished (the disk was
					// full, the process died) is not observable either; if that creation had been acknowledged, its
					// loss is reported for the creation itself
					anchor := o.Parent
					if o.Kind == "nodePoints" {
						anchor = o.Node
					}
					if anchor != dump.Root && !placed[anchor] && !createAcked[anchor] {
						c.Count("batches_below_a_node_that_was_never_created", 1)
						continue
					}
					if o.Kind == "nodePoints" && strings.HasSuffix(o.Node, "-orph") && ph.run.Acked[o.N] {
						c.Count("orphan_batches_judged_after_attach", 1)
					}
					if ph.run.Acked[o.N] && (present != stored || !edgeExists) {
						c.Violate("crash:acknowledged-write-lost", fmt.Sprintf("op %d (%s) of phase %d was acknowledged but %d of its %d points are missing after recovery (edge exists=%v)", o.N, o.Kind, pi+1, stored-present, stored, edgeExists), wit2())
						return
					}
					if (visible > 0 || (o.Kind == "create" && edgeExists) || (o.Kind == "mirror" && edgeExists)) && (present != stored || !edgeExists) {
						c.Violate("crash:batch-partly-visible", fmt.Sprintf("op %d (%s) of phase %d is partly visible after recovery: %d of %d points present, edge exists=%v", o.N, o.Kind, pi+1, present, stored, edgeExists), wit2())
						return
					}
					c.Count("batches_judged", 1)
				}
			}
			// phantoms: every stored point of a harness node must have been sent
			for id, m := range nodePts {
				if !strings.HasPrefix(id, "k1-") && !strings.HasPrefix(id, "k2-") {
					continue
				}
				for ik, sp := range m {
					if !sent[fmt.Sprint(true, id, "", ik, sp.Time.UnixNano())] {
						c.Violate("crash:phantom-point", fmt.Sprintf("node %s holds point %v t=%d that no started batch contains", id, ik, sp.Time.UnixNano()), wit)
						return
					}
				}
			}
			for ek, m := range edgePts {
				if !strings.HasPrefix(ek[1], "k1-") && !strings.HasPrefix(ek[1], "k2-") {
					continue
				}
				for ik, sp := range m {
					if !sent[fmt.Sprint(false, ek[1], ek[0], ik, sp.Time.UnixNano())] {
						c.Violate("crash:phantom-point", fmt.Sprintf("edge %v holds point %v t=%d that no started batch contains", ek, ik, sp.Time.UnixNano()), wit)
						return
					}
				}
			}
			c.Count("recoveries_checked", 1)
			if i < 3 && phase == 1 {
				c.Sample(map[string]any{"kill": kind, "n": n, "stage": stage, "open_ops": openKinds, "write_index": writeIdx, "acked": len(run.Acked), "started": len(run.Started), "placements": len(w)})
			}
		}
	})
	<-rootEnum
	c.Require("recoveries_checked", 20)
	c.Require("kills_inside_a_write", 5)
	c.Require("batches_judged", 200)
	return c.Finish()
}

func tail(s string, n int) string {
	if len(s) > n {
		return s[len(s)-n:]
	}
	return s
}
