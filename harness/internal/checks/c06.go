package checks

import (
	"fmt"
	"sort"
	"strings"
	"sync"
	"time"

	"github.com/simpleiot/simpleiot/data"

	"verifharness/internal/vlib"
)

func init() { Registry["C06"] = runC06 }

// buildShape constructs one of the named graph shapes with the driver.
func buildShape(d *gdriver, shape string) error {
	mk := func(parent, typ string) (string, error) { return d.create(parent, typ, d.r.Chance(0.3)) }
	root := d.g.Root
	mirror := func(id, np string) error {
		e, err := d.sendEdge(id, np, data.Points{{Type: data.PointTypeTombstone, Time: d.now(), Value: 0}, {Type: data.PointTypeNodeType, Text: d.g.Types[id]}})
		if err == nil && e != "" {
			err = fmt.Errorf("mirror refused: %s", e)
		}
		return err
	}
	del := func(id, parent string, v float64) error {
		e, err := d.sendEdge(id, parent, data.Points{{Type: data.PointTypeTombstone, Time: d.now(), Value: v}})
		if err == nil && e != "" {
			err = fmt.Errorf("tombstone refused: %s", e)
		}
		return err
	}
	switch shape {
	case "moved-into-a-group-of-its-parent":
		// a node that was moved from its parent into a group below that parent: the parent is still an ancestor,
		// over the live path through the group (and, for edge points, over the deleted edge as well)
		x, err := mk(root, "group")
		if err != nil {
			return err
		}
		n, err := mk(x, "variable") // the old edge is the older one
		if err != nil {
			return err
		}
		g, err := mk(x, "group")
		if err != nil {
			return err
		}
		if err := mirror(n, g); err != nil {
			return err
		}
		if err := del(n, x, 1); err != nil {
			return err
		}
		_, err = mk(n, "variable")
		return err
	case "diamond-ladder":
		// twelve diamonds on top of each other: 4096 ways from the bottom to the top. Built from the bottom up
		// (an edge may name a parent that has no edge of its own yet), so that building it does not itself send
		// tens of thousands of announcements; the top is hooked below the root last
		const levels = 12
		ns := make([]string, levels+1)
		for l := range ns {
			ns[l] = d.newID()
		}
		edge := func(id, parent string) error {
			e, err := d.sendEdge(id, parent, data.Points{{Type: data.PointTypeTombstone, Time: d.now(), Value: 0}, {Type: data.PointTypeNodeType, Text: "group"}})
			if err == nil && e != "" {
				err = fmt.Errorf("edge %s below %s refused: %s", id, parent, e)
			}
			return err
		}
		for l := levels; l >= 1; l-- {
			a, b := d.newID(), d.newID()
			for _, pr := range [][2]string{{ns[l], a}, {ns[l], b}, {a, ns[l-1]}, {b, ns[l-1]}} {
				if err := edge(pr[0], pr[1]); err != nil {
					return err
				}
			}
			d.Made = append(d.Made, a, b)
		}
		if err := edge(ns[0], root); err != nil {
			return err
		}
		// Made: top first, bottom last
		d.Made = append([]string{ns[0]}, d.Made...)
		for l := 1; l <= levels; l++ {
			d.Made = append(d.Made, ns[l])
		}
		return nil
	case "first-placed-nowhere":
		// a node whose first edge names no parent ("none" is what the library puts on the bus for an empty
		// parent id), placed below a real node afterwards; it has a child of its own
		a, err := mk(root, "group")
		if err != nil {
			return err
		}
		if d.r.Chance(0.5) {
			if a, err = mk(a, "group"); err != nil {
				return err
			}
		}
		x := d.newID()
		if e, err := d.sendEdge(x, "none", data.Points{{Type: data.PointTypeTombstone, Time: d.now(), Value: 0}, {Type: data.PointTypeNodeType, Text: "group"}}); err != nil || e != "" {
			return fmt.Errorf("edge to no parent refused: %v %s", err, e)
		}
		d.Made = append(d.Made, x)
		if err := mirror(x, a); err != nil {
			return err
		}
		_, err = mk(x, "variable")
		return err
	case "chain":
		p := root
		for i := 0; i < 2+d.r.Intn(4); i++ {
			n, err := mk(p, "group")
			if err != nil {
				return err
			}
			p = n
		}
	case "wide":
		g, err := mk(root, "group")
		if err != nil {
			return err
		}
		for i := 0; i < 2+d.r.Intn(5); i++ {
			if _, err := mk(g, "variable"); err != nil {
				return err
			}
		}
	case "mirror":
		a, _ := mk(root, "group")
		b, _ := mk(root, "group")
		n, err := mk(a, "variable")
		if err != nil {
			return err
		}
		return mirror(n, b)
	case "diamond":
		top, _ := mk(root, "group")
		a, _ := mk(top, "group")
		b, _ := mk(top, "group")
		n, err := mk(a, "variable")
		if err != nil {
			return err
		}
		if err := mirror(n, b); err != nil {
			return err
		}
		_, err = mk(n, "variable")
		return err
	case "tombstoned-middle":
		a, _ := mk(root, "group")
		b, _ := mk(a, "group")
		cN, err := mk(b, "group")
		if err != nil {
			return err
		}
		if _, err := mk(cN, "variable"); err != nil {
			return err
		}
		return del(b, a, 1)
	case "two-parents-one-deleted":
		a, _ := mk(root, "group")
		b, _ := mk(root, "group")
		n, err := mk(a, "variable")
		if err != nil {
			return err
		}
		if err := mirror(n, b); err != nil {
			return err
		}
		if _, err := mk(n, "variable"); err != nil {
			return err
		}
		return del(n, a, 1)
	case "deleted-then-undeleted":
		a, _ := mk(root, "group")
		n, err := mk(a, "variable")
		if err != nil {
			return err
		}
		if err := del(n, a, 1); err != nil {
			return err
		}
		return del(n, a, 0)
	case "random":
		for i := 0; i < 10+d.r.Intn(25); i++ {
			if _, err := d.randomLegalOp(); err != nil {
				return err
			}
		}
	}
	return nil
}

var c06Shapes = []string{"chain", "wide", "mirror", "diamond", "tombstoned-middle", "two-parents-one-deleted", "deleted-then-undeleted", "random", "first-placed-nowhere", "moved-into-a-group-of-its-parent", "diamond-ladder"}

// ownMetricReport: a node-point rebroadcast made of the metric points the store writes about itself
func ownMetricReport(m vlib.TapMsg) bool {
	pts, err := data.PbDecodePoints(m.Raw)
	if err != nil || len(pts) == 0 {
		return false
	}
	for _, p := range pts {
		if !strings.HasPrefix(p.Type, "metric") {
			return false
		}
	}
	return true
}

// checkRebroadcast compares tapped messages with the expected ancestor set.
func checkRebroadcast(msgs []vlib.TapMsg, node, parent string, edge bool, want map[string]bool, sent data.Points) (sig, what string) {
	got := map[string]int{}
	for _, m := range msgs {
		parts := strings.Split(m.Subject, ".")
		okShape := parts[0] == "up" && ((!edge && len(parts) == 3) || (edge && len(parts) == 4))
		if !okShape || parts[2] != node || (edge && parts[3] != parent) {
			if len(parts) == 3 && parts[0] == "up" && parts[2] != node && ownMetricReport(m) {
				continue // the instance's once-a-minute report about itself (a case that runs for more than a minute meets it)
			}
			return "rebroadcast:foreign-message", fmt.Sprintf("unexpected message on %s while writing %s", m.Subject, node)
		}
		got[parts[1]]++
		if d := pointsDiff(sent, m.Points); d != "" {
			return "rebroadcast:payload-differs", fmt.Sprintf("points on %s differ from the points sent: %s", m.Subject, d)
		}
	}
	var missing, extra []string
	for a := range want {
		if got[a] == 0 {
			missing = append(missing, a)
		}
	}
	for a := range got {
		if !want[a] {
			extra = append(extra, a)
		}
	}
	sort.Strings(missing)
	sort.Strings(extra)
	kind := "node"
	if edge {
		kind = "edge"
	}
	if len(missing) > 0 {
		return "rebroadcast:ancestor-missed:" + kind, fmt.Sprintf("no rebroadcast to ancestor(s) %v (got %v)", missing, got)
	}
	if len(extra) > 0 {
		return "rebroadcast:leak-to-non-ancestor:" + kind, fmt.Sprintf("rebroadcast to %v which is not an ancestor (expected %v)", extra, keysOf(want))
	}
	return "", ""
}

func keysOf(m map[string]bool) []string {
	var out []string
	for k := range m {
		out = append(out, k)
	}
	sort.Strings(out)
	return out
}

func runC06(tier string, _ []string) int {
	c := vlib.NewCtx("C06", tier, "exploration")
	vlib.SetPortBlock(6)
	c.SetRule("per case a fresh instance and a graph of one generator class (chain, wide, mirror, diamond, tombstoned edge in the middle, node under two parents one of which is deleted, deleted then undeleted, random history, a node whose first edge names no parent and that is placed below a real node later, a node moved into a group of its own parent, a ladder of twelve diamonds with 4096 ways from the bottom to the top); then every node (incl. the root and one detached node that has points but no edge) is written once with an acknowledged node batch and every placement once with an edge batch (newer than what is stored; some carry a point of the tombstone's type under another key, which says nothing about the edge); an up.> subscription on the writer's connection is drained at the reply barrier and compared with the model: {node} + ancestors through live edges (node points) / through any edges (edge points) + the root sentinel, payload equal to the points sent. In every second case 4-9 random legal graph operations follow (mirror, move, delete, undelete, create) and every node and placement is written and checked again. (Thorough tier: one instance serves 66 000 writes, then 200 quiet nodes are written again at distances around 2^16 writes.) In two cases out of three a concurrent phase follows: an edge is deleted / undeleted 6-17 times while a second connection writes back to back to a node below it; at rest afterwards, writes below the edge must be announced exactly according to the final graph. distinct = (shape, node|edge, size of expected set, duplicates seen)")
	c.Assume("the store publishes rebroadcasts before the reply on one connection and NATS keeps per-publisher order to a subscriber connection (barrier, DESIGN C05)")
	nGraphs := c.N(160, 1600)
	vlib.Parallel(nGraphs, 6, func(i int) {
		r := vlib.NewR(c.Seed, "c06", i)
		shape := c06Shapes[i%len(c06Shapes)]
		if shape == "diamond-ladder" && i >= 2*len(c06Shapes) {
			shape = "diamond" // (two ladders per run: each costs about as much as fifty other graphs)
		}
		in, err := vlib.StartInstance(vlib.InstCfg{ID: fmt.Sprintf("c06-%d", i)})
		if err != nil {
			c.Inconclusive(err.Error())
			return
		}
		defer in.Stop()
		nc, err := in.Connect()
		if err != nil {
			c.Inconclusive(err.Error())
			return
		}
		d := newGdriver(r, nc, in.RootID, fmt.Sprintf("g%d", i))
		if err := buildShape(d, shape); err != nil {
			c.Violate("store:legal-write-refused", "building shape "+shape+": "+err.Error(), map[string]any{"case": i, "ops": d.Log})
			return
		}
		tap, err := vlib.NewTap(nc, "up.>")
		if err != nil {
			c.Inconclusive(err.Error())
			return
		}
		defer tap.Close()
		tap.Drain()
		wit := func(extra map[string]any) map[string]any {
			m := map[string]any{"case": i, "seed": c.Seed, "shape": shape, "ops": d.Log, "edges": d.g.EdgeKeys()}
			for k, v := range extra {
				m[k] = v
			}
			return m
		}
		nodes := append([]string{in.RootID}, d.Made...)
		detached := d.newID()
		nodes = append(nodes, detached)
		ladder := shape == "diamond-ladder"
		if ladder {
			// (a write at the bottom is announced over each of the 4096 ways: the bottom node, the two above it
			// and the top are written, not all 37)
			nodes = []string{in.RootID, d.Made[0], d.Made[len(d.Made)-3], d.Made[len(d.Made)-2], d.Made[len(d.Made)-1]}
		}
		for _, n := range nodes {
			pts := d.somePoints(1 + r.Intn(3))
			e, err := d.sendNode(n, pts)
			c.Eval(1)
			if err != nil || e != "" {
				c.Violate("store:legal-write-refused", fmt.Sprintf("node write: %v %s", err, e), wit(nil))
				return
			}
			msgs := tap.Drain()
			want := d.g.Ancestors(n, false)
			want[n] = true
			if sig, what := checkRebroadcast(msgs, n, "", false, want, pts); sig != "" {
				var subs []string
				for _, m := range msgs {
					subs = append(subs, m.Subject)
				}
				c.Violate(sig, what, wit(map[string]any{"written": n, "subjects": subs}))
				return
			}
			dups := len(msgs) > len(want)
			c.Distinct(fmt.Sprintf("%s node want=%d dups=%v detached=%v", shape, len(want), dups, n == detached))
			c.Count("rebroadcasts_observed", int64(len(msgs)))
		}
		for _, k := range d.g.EdgeKeys() {
			parent, n := k[0], k[1]
			if ladder && n != d.Made[len(d.Made)-1] && n != d.Made[0] {
				continue
			}
			pts := data.Points{{Type: []string{"role", "sortOrder"}[r.Intn(2)], Key: []string{"", "x"}[r.Intn(2)], Time: d.now(), Value: float64(r.Intn(5)), Text: c01Str(r), Origin: "user-y"}}
			if n != in.RootID && r.Chance(0.15) { // (on the root's edge the store refuses anything of that type)
				// an edge point that has the tombstone's type but another key: it says nothing about the edge
				pts = append(pts, data.Point{Type: data.PointTypeTombstone, Key: []string{"x", "slot2", "1", "00"}[r.Intn(4)], Time: d.now(), Value: float64(r.Intn(2)), Origin: "user-y"})
			}
			if n != in.RootID && r.Chance(0.25) {
				// a deletion (or undeletion) must be announced above it as well
				v := 1.0
				if d.g.Deleted(parent, n) {
					v = 0
				}
				pts = data.Points{{Type: data.PointTypeTombstone, Time: d.now(), Value: v, Origin: "user-y"}}
			}
			e, err := d.sendEdge(n, parent, pts)
			c.Eval(1)
			if err != nil || e != "" {
				c.Violate("store:legal-write-refused", fmt.Sprintf("edge write: %v %s", err, e), wit(nil))
				return
			}
			msgs := tap.Drain()
			want := d.g.Ancestors(n, true)
			want[n] = true
			if sig, what := checkRebroadcast(msgs, n, parent, true, want, pts); sig != "" {
				var subs []string
				for _, m := range msgs {
					subs = append(subs, m.Subject)
				}
				c.Violate(sig, what, wit(map[string]any{"written": n, "parent": parent, "subjects": subs}))
				return
			}
			c.Distinct(fmt.Sprintf("%s edge want=%d dups=%v tomb=%v", shape, len(want), len(msgs) > len(want), pts[0].Type == data.PointTypeTombstone))
			c.Count("rebroadcasts_observed", int64(len(msgs)))
		}
		// ---- the graph changes after it has been written to (mirrors, moves, deletions, undeletions,
		// new nodes), then every node is written again: whatever the store remembers about ancestors
		// from the first round must not survive the changes
		if i%2 == 1 && !ladder {
			for q := 0; q < 4+r.Intn(6); q++ {
				if _, err := d.randomLegalOp(); err != nil {
					c.Violate("store:legal-write-refused", err.Error(), wit(nil))
					return
				}
			}
			tap.Drain()
			for _, n := range append([]string{in.RootID}, d.Made...) {
				pts := data.Points{{Type: "again", Time: d.now(), Value: float64(r.Intn(100)), Origin: "user-y"}}
				e, err := d.sendNode(n, pts)
				c.Eval(1)
				if err != nil || e != "" {
					c.Violate("store:legal-write-refused", fmt.Sprintf("node write: %v %s", err, e), wit(nil))
					return
				}
				msgs := tap.Drain()
				want := d.g.Ancestors(n, false)
				want[n] = true
				if sig, what := checkRebroadcast(msgs, n, "", false, want, pts); sig != "" {
					var subs []string
					for _, m := range msgs {
						subs = append(subs, m.Subject)
					}
					c.Violate(sig+":after-graph-changes", what, wit(map[string]any{"written": n, "subjects": subs}))
					return
				}
				c.Count("rewrites_checked_after_graph_changes", 1)
			}
			for _, k := range d.g.EdgeKeys() {
				parent, n := k[0], k[1]
				if n == in.RootID {
					continue
				}
				pts := data.Points{{Type: "sortOrder", Key: "again", Time: d.now(), Value: float64(r.Intn(5)), Origin: "user-y"}}
				e, err := d.sendEdge(n, parent, pts)
				c.Eval(1)
				if err != nil || e != "" {
					c.Violate("store:legal-write-refused", fmt.Sprintf("edge write: %v %s", err, e), wit(nil))
					return
				}
				msgs := tap.Drain()
				want := d.g.Ancestors(n, true)
				want[n] = true
				if sig, what := checkRebroadcast(msgs, n, parent, true, want, pts); sig != "" {
					c.Violate(sig+":after-graph-changes", what, wit(map[string]any{"written": n, "parent": parent}))
					return
				}
				c.Count("rewrites_checked_after_graph_changes", 1)
			}
		}
		// ---- concurrent phase: the ancestor set of a node changes (edge deleted / undeleted / mirrored)
		// while another connection writes to a node below it back to back; afterwards, at rest, a
		// write below must be announced according to the final graph
		if i%3 != 1 && !ladder {
			var cands [][2]string
			for _, k := range d.g.EdgeKeys() {
				if k[1] != in.RootID && k[0] != "root" {
					cands = append(cands, k)
				}
			}
			if len(cands) > 0 {
				ek := cands[r.Intn(len(cands))]
				par, n := ek[0], ek[1]
				// a node at or below n
				below := n
				for hop := 0; hop < 6; hop++ {
					kids := d.g.Children(below, false)
					if len(kids) == 0 {
						break
					}
					below = kids[r.Intn(len(kids))]
				}
				nc2, err := in.Connect()
				if err != nil {
					c.Inconclusive(err.Error())
					return
				}
				stop := make(chan struct{})
				var wg sync.WaitGroup
				var wErr error
				base := d.now().UnixNano() + int64(time.Hour)
				wrote := 0
				wg.Add(1)
				go func() {
					defer wg.Done()
					for k := 0; ; k++ {
						select {
						case <-stop:
							return
						default:
						}
						e, err := vlib.SendAck(nc2, vlib.NodeSubj(below), data.Points{{Type: "busy", Time: time.Unix(0, base+int64(k)), Value: float64(k), Origin: "writer"}})
						if err != nil || e != "" {
							wErr = fmt.Errorf("concurrent writer: %v %s", err, e)
							return
						}
						wrote++
					}
				}()
				toggles := 6 + r.Intn(12)
				var tErr error
				for t := 0; t < toggles && tErr == nil; t++ {
					v := 1.0
					if d.g.Deleted(par, n) {
						v = 0
					}
					e, err := d.sendEdge(n, par, data.Points{{Type: data.PointTypeTombstone, Time: d.now(), Value: v, Origin: "user-y"}})
					if err != nil || e != "" {
						tErr = fmt.Errorf("edge toggle: %v %s", err, e)
					}
					time.Sleep(time.Duration(r.Intn(1500)) * time.Microsecond)
				}
				close(stop)
				wg.Wait()
				nc2.Close()
				if tErr != nil || wErr != nil {
					c.Violate("store:legal-write-refused", fmt.Sprint(tErr, wErr), wit(nil))
					return
				}
				// barrier: everything the writer caused has been published before this reply
				if e, err := d.sendNode(detached, d.somePoints(1)); err != nil || e != "" {
					c.Violate("store:legal-write-refused", fmt.Sprint(err, e), wit(nil))
					return
				}
				tap.Drain()
				for _, target := range []string{below, n} {
					pts := data.Points{{Type: "after", Time: time.Unix(0, base+int64(time.Hour)+d.now().UnixNano()%1e9), Value: 1, Origin: "user-z"}}
					e, err := d.sendNode(target, pts)
					c.Eval(1)
					if err != nil || e != "" {
						c.Violate("store:legal-write-refused", fmt.Sprintf("node write: %v %s", err, e), wit(nil))
						return
					}
					msgs := tap.Drain()
					want := d.g.Ancestors(target, false)
					want[target] = true
					if sig, what := checkRebroadcast(msgs, target, "", false, want, pts); sig != "" {
						var subs []string
						for _, m := range msgs {
							subs = append(subs, m.Subject)
						}
						c.Violate(sig+":after-concurrent-edge-changes", what, wit(map[string]any{"written": target, "subjects": subs, "toggled_edge": ek, "toggles": toggles, "concurrent_writes": wrote, "deleted_now": d.g.Deleted(par, n)}))
						return
					}
					c.Count("checked_after_concurrent_edge_changes", 1)
				}
				c.Count("concurrent_writes_during_edge_changes", int64(wrote))
				c.Distinct(fmt.Sprintf("%s concurrent toggles~%d final-deleted=%v", shape, toggles/3*3, d.g.Deleted(par, n)))
			}
		}
		if i < 3 {
			c.Sample(map[string]any{"shape": shape, "edges": d.g.EdgeKeys()})
		}
	})
	// ---- thorough tier only: one instance that has served more than 2^16 writes (counters and sequence
	// numbers inside the store have wrapped); 200 quiet nodes are then written again at distances
	// 65435..65634 writes from their previous write, each must be rebroadcast to all its ancestors
	if c.Thorough() && !vlib.Aborted() {
		func() {
			r := vlib.NewR(c.Seed, "c06long", 0)
			in, err := vlib.StartInstance(vlib.InstCfg{ID: "c06-long"})
			if err != nil {
				c.Inconclusive(err.Error())
				return
			}
			defer in.Stop()
			nc, err := in.Connect()
			if err != nil {
				c.Inconclusive(err.Error())
				return
			}
			d := newGdriver(r, nc, in.RootID, "lg")
			grp, _ := d.create(in.RootID, "group", false)
			var targets []string
			for q := 0; q < 200; q++ {
				id, err := d.create(grp, "variable", false)
				if err != nil {
					c.Violate("store:legal-write-refused", err.Error(), nil)
					return
				}
				targets = append(targets, id)
			}
			filler, _ := d.create(in.RootID, "variable", false)
			tap, err := vlib.NewTap(nc, "up.>")
			if err != nil {
				c.Inconclusive(err.Error())
				return
			}
			defer tap.Close()
			write := func(id string, check bool) bool {
				pts := data.Points{{Type: "v", Time: d.now(), Value: float64(r.Intn(1000)), Origin: "user-y"}}
				e, err := d.sendNode(id, pts)
				if err != nil || e != "" {
					c.Violate("store:legal-write-refused", fmt.Sprint(err, e), map[string]any{"node": id})
					return false
				}
				msgs := tap.Drain()
				if !check {
					return true
				}
				want := d.g.Ancestors(id, false)
				want[id] = true
				if sig, what := checkRebroadcast(msgs, id, "", false, want, pts); sig != "" {
					c.Violate(sig+":after-65535-writes", what, map[string]any{"node": id, "writes_so_far": len(d.Log)})
					return false
				}
				c.Count("rewrites_checked_after_2^16_writes", 1)
				return true
			}
			for _, t := range targets {
				if !write(t, true) {
					return
				}
			}
			for q := 0; q < 65535-200-100; q++ {
				if !write(filler, q%1000 == 0) {
					return
				}
				if q%5000 == 0 {
					d.Log = d.Log[:0] // the witness log is not needed for the fillers
				}
			}
			for _, t := range targets {
				if !write(t, true) || !write(filler, false) {
					return
				}
			}
			c.Eval(66000)
			c.Distinct("long run past 2^16 writes")
		}()
	}
	c.Require("rebroadcasts_observed", 300)
	return c.Finish()
}
