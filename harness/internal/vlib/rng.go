package vlib

import (
	"math"
	"math/rand"
	"os"
	"runtime"
	"strconv"
	"sync"
	"sync/atomic"
	"time"
)

// R is a deterministic PRNG with helper generators.
type R struct{ *rand.Rand }

func splitmix(x uint64) uint64 {
	x += 0x9e3779b97f4a7c15
	z := x
	z = (z ^ (z >> 30)) * 0xbf58476d1ce4e5b9
	z = (z ^ (z >> 27)) * 0x94d049bb133111eb
	return z ^ (z >> 31)
}

// SubSeed derives the seed of case idx of stream `stream` from the run seed.
func SubSeed(seed int64, stream string, idx int) int64 {
	h := uint64(seed)
	for _, b := range []byte(stream) {
		h = splitmix(h ^ uint64(b))
	}
	h = splitmix(h ^ uint64(idx))
	return int64(h & 0x7fffffffffffffff)
}

// NewR makes a PRNG for (seed, stream, idx).
func NewR(seed int64, stream string, idx int) *R {
	return &R{rand.New(rand.NewSource(SubSeed(seed, stream, idx)))}
}

// Chance returns true with probability p.
func (r *R) Chance(p float64) bool { return r.Float64() < p }

// Range returns an int in [lo,hi].
func (r *R) Range(lo, hi int) int {
	if hi <= lo {
		return lo
	}
	return lo + r.Intn(hi-lo+1)
}

// Pick returns one of the strings.
func (r *R) Pick(s []string) string { return s[r.Intn(len(s))] }

// HostileStrings is the pool of adversarial strings (valid UTF-8, no NUL).
var HostileStrings = []string{
	"", "0", "1", "a", "b", "ab", "a b", " lead", "trail ", "'", "\"", "`", "\\", "%", "?", "_", ";--",
	"' OR 1=1 --", "日本語", "emoji😀", "‮RTL", "é", "é", "\t", "\n", "a\nb", "NULL", "null", "nan",
	"value", "description", "tombstone", "nodeType", "-1", "007", "1e3", "0x10", "00", "0.0",
	"long-" + longStr(300),
	"\x00", "a\x00", "\x00a", "a\x00b",
}

func longStr(n int) string {
	b := make([]byte, n)
	for i := range b {
		b[i] = byte('a' + i%26)
	}
	return string(b)
}

// Str returns a hostile or random printable string.
func (r *R) Str() string {
	switch r.Intn(4) {
	case 0:
		return r.Pick(HostileStrings)
	case 1:
		return r.Pick(HostileStrings) + r.Pick(HostileStrings)
	default:
		n := r.Intn(12)
		b := make([]rune, n)
		for i := range b {
			switch r.Intn(8) {
			case 0:
				b[i] = rune(0x80 + r.Intn(0x700))
			case 1:
				b[i] = rune(0x4e00 + r.Intn(0x500))
			default:
				b[i] = rune(0x20 + r.Intn(0x5f))
			}
		}
		return string(b)
	}
}

// Ident returns a short identifier-like string (letters/digits), non-empty.
func (r *R) Ident(n int) string {
	const al = "abcdefghijklmnopqrstuvwxyz0123456789"
	b := make([]byte, n)
	for i := range b {
		b[i] = al[r.Intn(len(al))]
	}
	return string(b)
}

// HostileFloats are the corner float64 values (no NaN).
var HostileFloats = []float64{
	0, math.Copysign(0, -1), 1, -1, 0.5, 1.5, math.Inf(1), math.Inf(-1),
	math.MaxFloat64, -math.MaxFloat64, math.SmallestNonzeroFloat64, -math.SmallestNonzeroFloat64,
	1 << 53, 1<<53 + 2, -(1 << 53), 1e21, 1e-7, 123456789.125, 3.141592653589793,
	float64(math.MaxInt64), float64(math.MinInt64), 2.2250738585072014e-308,
}

// Float returns a hostile or random float64, never NaN.
func (r *R) Float() float64 {
	switch r.Intn(3) {
	case 0:
		return HostileFloats[r.Intn(len(HostileFloats))]
	case 1:
		return float64(r.Intn(2001)-1000) / 8
	default:
		for {
			f := math.Float64frombits(r.Uint64())
			if !math.IsNaN(f) {
				return f
			}
		}
	}
}

// TimeNs returns a hostile or random non-zero int64 nanosecond timestamp.
func (r *R) TimeNs() int64 {
	switch r.Intn(6) {
	case 0:
		return []int64{1, -1, math.MaxInt64, math.MinInt64 + 1, math.MinInt64, 1e9, -1e9, 999999999, 1000000001}[r.Intn(9)]
	case 1:
		return r.Int63() - r.Int63()
	default:
		// around 2020..2030
		return 1577836800e9 + r.Int63n(315360000e9)
	}
}

// UnixNs converts ns to time.Time the way the store does.
func UnixNs(ns int64) time.Time { return time.Unix(0, ns) }

// Parallel runs f(0..n-1) on up to workers goroutines (0 = number of CPUs, capped at 12).
// abortFlag is set by the first violation that is not a known finding: the run will exit 1 whatever
// the remaining cases show, and on a broken tree every further case may cost a full reply timeout
// (VERIF_KEEP_GOING=1 explores on).
var abortFlag int32

// Aborted reports whether the remaining cases of this run are skipped.
func Aborted() bool { return atomic.LoadInt32(&abortFlag) != 0 }

func setAborted() {
	if os.Getenv("VERIF_KEEP_GOING") == "" {
		atomic.StoreInt32(&abortFlag, 1)
	}
}

func Parallel(n, workers int, f func(i int)) {
	if s := os.Getenv("VERIF_CASE"); s != "" {
		// replay a single case
		if i, err := strconv.Atoi(s); err == nil && i < n {
			f(i)
		}
		return
	}
	if workers <= 0 {
		workers = runtime.NumCPU()
		if workers > 12 {
			workers = 12
		}
	}
	var wg sync.WaitGroup
	next := int64(-1)
	for w := 0; w < workers; w++ {
		wg.Add(1)
		go func() {
			defer wg.Done()
			for {
				i := int(atomic.AddInt64(&next, 1))
				if i >= n || Aborted() {
					return
				}
				f(i)
			}
		}()
	}
	wg.Wait()
}
