package vlib

import (
	"encoding/binary"
	"errors"
	"fmt"
	"hash/crc32"
	"math"
	"sort"
	"strings"
	"time"

	"github.com/nats-io/nats.go"
	"github.com/simpleiot/simpleiot/client"
	"github.com/simpleiot/simpleiot/data"
)

// ReqTimeout is the harness's acknowledged-write timeout (the library's own is a fixed 1 s).
const ReqTimeout = 30 * time.Second

// ErrNoReply means the request was not answered within ReqTimeout.
var ErrNoReply = errors.New("no reply")

// SendAck sends points to subject with the library's encoding and waits for the
// reply. replyErr is the store's error string ("" = accepted).
func SendAck(nc *nats.Conn, subject string, pts data.Points) (replyErr string, err error) {
	b, err := pts.ToPb()
	if err != nil {
		return "", err
	}
	msg, err := nc.Request(subject, b, ReqTimeout)
	if err != nil {
		if errors.Is(err, nats.ErrTimeout) {
			return "", ErrNoReply
		}
		return "", err
	}
	return string(msg.Data), nil
}

// NodeSubj / EdgeSubj are the write subjects.
func NodeSubj(id string) string         { return "p." + id }
func EdgeSubj(id, parent string) string { return "p." + id + "." + parent }

// Tap is a synchronous subscription used to observe rebroadcasts.
type Tap struct {
	nc  *nats.Conn
	sub *nats.Subscription
}

// NewTap subscribes subject on nc. For the ordering barrier to hold, nc must be
// the connection that also issues the acknowledged writes.
func NewTap(nc *nats.Conn, subject string) (*Tap, error) {
	sub, err := nc.SubscribeSync(subject)
	if err != nil {
		return nil, err
	}
	_ = sub.SetPendingLimits(-1, -1)
	if err := nc.Flush(); err != nil {
		return nil, err
	}
	return &Tap{nc: nc, sub: sub}, nil
}

// TapMsg is one observed message.
type TapMsg struct {
	Subject string
	Points  data.Points
	Raw     []byte
}

// Drain returns everything received so far. Call after the reply of an
// acknowledged write on the same connection: the store publishes its
// rebroadcasts before the reply and NATS keeps per-publisher order.
func (t *Tap) Drain() []TapMsg {
	_ = t.nc.Flush()
	var out []TapMsg
	for {
		m, err := t.sub.NextMsg(time.Millisecond)
		if err != nil {
			// one more look after a flush round trip
			n, _, _ := t.sub.Pending()
			if n == 0 {
				return out
			}
			continue
		}
		pts, _ := data.PbDecodePoints(m.Data)
		out = append(out, TapMsg{Subject: m.Subject, Points: pts, Raw: m.Data})
	}
}

// Close unsubscribes.
func (t *Tap) Close() { _ = t.sub.Unsubscribe() }

// ---- tree walk

// Placement is one (parent,id) edge with the node content as the store reports it.
type Placement = data.NodeEdge

// Walk reads the whole tree reachable from the instance root (deleted included).
// Key of the result: parent + "/" + id.
func Walk(nc *nats.Conn) (map[string]Placement, error) {
	roots, err := client.GetNodes(nc, "root", "all", "", true)
	if err != nil {
		return nil, err
	}
	out := map[string]Placement{}
	var rec func(ne data.NodeEdge, depth int) error
	rec = func(ne data.NodeEdge, depth int) error {
		k := ne.Parent + "/" + ne.ID
		if _, ok := out[k]; ok {
			return nil
		}
		out[k] = ne
		if depth > 400 {
			return fmt.Errorf("tree deeper than 400 below %s (cycle?)", ne.ID)
		}
		kids, err := client.GetNodes(nc, ne.ID, "all", "", true)
		if err != nil {
			return err
		}
		for _, k := range kids {
			if err := rec(k, depth+1); err != nil {
				return err
			}
		}
		return nil
	}
	for _, r := range roots {
		if err := rec(r, 0); err != nil {
			return out, err
		}
	}
	return out, nil
}

// CanonPoint renders a point for dumps / comparisons (key "" shown as "0").
func CanonPoint(p data.Point) string {
	k := p.Key
	if k == "" {
		k = "0"
	}
	return fmt.Sprintf("%q/%q t=%d v=%016x txt=%q tomb=%d org=%q data=%x", p.Type, k, p.Time.UnixNano(), math.Float64bits(p.Value), p.Text, p.Tombstone, p.Origin, p.Data)
}

func canonPoints(ps data.Points) string {
	s := make([]string, len(ps))
	for i, p := range ps {
		s[i] = CanonPoint(p)
	}
	sort.Strings(s)
	return strings.Join(s, "\n    ")
}

// DumpString renders a walk deterministically (placements, points, edge points, hashes).
func DumpString(w map[string]Placement) string {
	keys := make([]string, 0, len(w))
	for k := range w {
		keys = append(keys, k)
	}
	sort.Strings(keys)
	var sb strings.Builder
	for _, k := range keys {
		p := w[k]
		fmt.Fprintf(&sb, "%s type=%q hash=%08x\n  P: %s\n  E: %s\n", k, p.Type, p.Hash, canonPoints(p.Points), canonPoints(p.EdgePoints))
	}
	return sb.String()
}

// ---- independent Merkle hash (docs/ref/sync.md)

// RefCRC is CRC-32/IEEE over time(ns LE) | type | key | text | float64bits(value) LE.
func RefCRC(p data.Point) uint32 {
	if p.Type == data.PointTypeNodeType {
		return 0
	}
	h := crc32.NewIEEE()
	var b [8]byte
	binary.LittleEndian.PutUint64(b[:], uint64(p.Time.UnixNano()))
	h.Write(b[:])
	h.Write([]byte(p.Type))
	h.Write([]byte(p.Key))
	h.Write([]byte(p.Text))
	v := p.Value
	if v == 0 {
		v = 0 // -0 and +0 are one value (the store does not keep the sign of zero)
	}
	binary.LittleEndian.PutUint64(b[:], math.Float64bits(v))
	h.Write(b[:])
	return h.Sum32()
}

// RefHashes recomputes every placement's hash bottom-up from the walk's
// points only (never from reported child hashes).
func RefHashes(w map[string]Placement) map[string]uint32 {
	kids := map[string][]string{} // node id -> keys of child placements
	for k, p := range w {
		kids[p.Parent] = append(kids[p.Parent], k)
	}
	memo := map[string]uint32{}
	var rec func(key string, depth int) uint32
	rec = func(key string, depth int) uint32 {
		if v, ok := memo[key]; ok {
			return v
		}
		p := w[key]
		var h uint32
		for _, pt := range p.Points {
			h ^= RefCRC(pt)
		}
		for _, pt := range p.EdgePoints {
			h ^= RefCRC(pt)
		}
		if depth < 1000 { // (guard against a cycle in a broken store; deeper than any tree the checks build)
			for _, ck := range kids[p.ID] {
				h ^= rec(ck, depth+1)
			}
		}
		memo[key] = h
		return h
	}
	out := map[string]uint32{}
	for k := range w {
		out[k] = rec(k, 0)
	}
	return out
}
