// Package vlib holds what every property check shares: the run context
// (seed, tier, evidence, verdicts), PRNG helpers, the instance launcher, bus
// helpers and the reference models.
package vlib

import (
	"encoding/json"
	"fmt"
	"os"
	"path/filepath"
	"runtime"
	"sort"
	"strconv"
	"strings"
	"sync"
	"time"
)

// VerifDir is where evidence, replays and the known-findings file live.
func VerifDir() string {
	if d := os.Getenv("VERIF_DIR"); d != "" {
		return d
	}
	return "/verif"
}

// Finding is one entry of known_findings.json.
type Finding struct {
	ID        string `json:"id"`
	Property  string `json:"property"`
	Signature string `json:"signature"`
	What      string `json:"what"`
}

type findingsFile struct {
	Findings []Finding         `json:"findings"`
	Fixed    []json.RawMessage `json:"fixed"`
}

// Violation is one rejected execution.
type Violation struct {
	Signature string `json:"signature"`
	What      string `json:"what"`
	Witness   any    `json:"witness"`
	Known     bool   `json:"known"`
}

// Ctx is the run context of one check.
type Ctx struct {
	ID    string
	Tier  string
	Seed  int64
	Level string

	start time.Time
	mu    sync.Mutex

	evaluations int64
	distinct    map[string]struct{}
	rule        string
	samples     []any
	maxSamples  int
	counters    map[string]int64
	extra       map[string]any
	assumptions []string

	violations   []Violation
	inconclusive []string
	checkErrors  []string
	known        []Finding
	// minimum numbers of observed events; below ⇒ CHECK-ERROR
	minimums map[string]int64
}

// NewCtx creates the context from argv/env.
func NewCtx(id, tier, level string) *Ctx {
	seed := int64(1)
	if s := os.Getenv("VERIF_SEED"); s != "" {
		if v, err := strconv.ParseInt(s, 10, 64); err == nil {
			seed = v
		}
	}
	c := &Ctx{
		ID: id, Tier: tier, Seed: seed, Level: level,
		start:      time.Now(),
		distinct:   map[string]struct{}{},
		counters:   map[string]int64{},
		extra:      map[string]any{},
		minimums:   map[string]int64{},
		maxSamples: 6,
	}
	b, err := os.ReadFile(filepath.Join(VerifDir(), "known_findings.json"))
	if err == nil {
		var ff findingsFile
		if err := json.Unmarshal(b, &ff); err != nil {
			c.CheckError("known_findings.json does not parse: " + err.Error())
		}
		for _, f := range ff.Findings {
			if f.Property == id {
				c.known = append(c.known, f)
			}
		}
	}
	return c
}

// Thorough reports whether the thorough tier was asked for.
func (c *Ctx) Thorough() bool { return c.Tier == "thorough" }

// N picks the per-tier size of something.
func (c *Ctx) N(quick, thorough int) int {
	if c.Thorough() {
		return thorough
	}
	return quick
}

// SetRule states how cases are generated and what counts as distinct.
func (c *Ctx) SetRule(r string) { c.mu.Lock(); c.rule = r; c.mu.Unlock() }

// Assume records an assumption for the evidence file.
func (c *Ctx) Assume(a string) { c.mu.Lock(); c.assumptions = append(c.assumptions, a); c.mu.Unlock() }

// Eval counts n executed cases.
func (c *Ctx) Eval(n int) { c.mu.Lock(); c.evaluations += int64(n); c.mu.Unlock() }

// Distinct records the class key of a non-trivial case.
func (c *Ctx) Distinct(key string) {
	c.mu.Lock()
	c.distinct[key] = struct{}{}
	c.mu.Unlock()
}

// Count adds to a named monitor-side counter.
func (c *Ctx) Count(name string, n int64) { c.mu.Lock(); c.counters[name] += n; c.mu.Unlock() }

// Counter reads a counter.
func (c *Ctx) Counter(name string) int64 { c.mu.Lock(); defer c.mu.Unlock(); return c.counters[name] }

// Extra sets an additional evidence key.
func (c *Ctx) Extra(name string, v any) { c.mu.Lock(); c.extra[name] = v; c.mu.Unlock() }

// Sample keeps an actual case for the evidence file (first few only).
func (c *Ctx) Sample(s any) {
	c.mu.Lock()
	if len(c.samples) < c.maxSamples {
		c.samples = append(c.samples, s)
	}
	c.mu.Unlock()
}

// Require states that counter `name` must reach min or the check is broken.
func (c *Ctx) Require(name string, min int64) { c.mu.Lock(); c.minimums[name] = min; c.mu.Unlock() }

// Violate records a rejected execution. signature names the failing input
// class / call site / history shape; witness is written to the replay file.
func (c *Ctx) Violate(signature, what string, witness any) {
	c.mu.Lock()
	defer c.mu.Unlock()
	// a dropped harness connection is a failure of the transport between the monitor and the
	// instance, not an answer of the store: the case is inconclusive (a dead instance ends the
	// whole process and is reported as process death by ./check)
	if signature == "store:legal-write-refused" || signature == "concurrency:read-failed" {
		for _, t := range []string{"nats: connection closed", "nats: invalid connection", "nats: no servers available", "nats: connection disconnected"} {
			if strings.Contains(what, t) {
				c.inconclusive = append(c.inconclusive, "transport: "+signature+": "+what)
				return
			}
		}
	}
	v := Violation{Signature: signature, What: what, Witness: witness}
	for _, f := range c.known {
		if f.Signature == signature {
			v.Known = true
		}
	}
	if !v.Known {
		setAborted()
	}
	// keep at most 40 witnesses per signature
	n := 0
	for _, o := range c.violations {
		if o.Signature == signature {
			n++
		}
	}
	c.counters["violations:"+signature]++
	if len(c.samples) == 0 {
		// the violating case is an actual case of this run: keep it as a sample if none was recorded yet
		c.samples = append(c.samples, map[string]any{"violating_case": signature, "witness": witness})
	}
	if n < 40 {
		c.violations = append(c.violations, v)
	}
}

// NViolations returns the number of recorded (kept) violations.
func (c *Ctx) NViolations() int { c.mu.Lock(); defer c.mu.Unlock(); return len(c.violations) }

// Inconclusive records a case that could not be decided.
func (c *Ctx) Inconclusive(what string) {
	c.mu.Lock()
	c.inconclusive = append(c.inconclusive, what)
	c.mu.Unlock()
}

// CheckError records a failure of the machinery itself.
func (c *Ctx) CheckError(what string) {
	c.mu.Lock()
	c.checkErrors = append(c.checkErrors, what)
	c.mu.Unlock()
}

// Finish writes evidence and replay files, prints the contract lines and
// returns the process exit code.
func (c *Ctx) Finish() int {
	c.mu.Lock()
	defer c.mu.Unlock()
	dir := VerifDir()
	fmt.Println() // the code under test prints to stdout without newlines; contract lines must start a line
	_ = os.MkdirAll(filepath.Join(dir, "evidence"), 0o755)
	_ = os.MkdirAll(ReplayDir(), 0o755)

	for name, min := range c.minimums {
		if os.Getenv("VERIF_CASE") != "" {
			break // single-case replay: the volume requirements of a full run do not apply
		}
		if c.counters[name] < min {
			c.checkErrors = append(c.checkErrors,
				fmt.Sprintf("monitor observed too little: %s=%d < %d", name, c.counters[name], min))
		}
	}

	// group violations by signature
	bySig := map[string][]Violation{}
	var sigs []string
	for _, v := range c.violations {
		if _, ok := bySig[v.Signature]; !ok {
			sigs = append(sigs, v.Signature)
		}
		bySig[v.Signature] = append(bySig[v.Signature], v)
	}
	sort.Strings(sigs)
	exit := 0
	unknown := 0
	knownHits := map[string]int64{}
	for i, s := range sigs {
		vs := bySig[s]
		if vs[0].Known {
			what := vs[0].What
			for _, f := range c.known {
				if f.Signature == s {
					what = f.ID + " " + f.Signature + ": " + f.What
				}
			}
			fmt.Printf("KNOWN-FINDING: property=%s %s (seen %d times this run)\n", c.ID, what, c.counters["violations:"+s])
			knownHits[s] = c.counters["violations:"+s]
			continue
		}
		unknown++
		path := filepath.Join(ReplayDir(), fmt.Sprintf("%s-seed%d-%d.json", c.ID, c.Seed, i))
		b, _ := json.MarshalIndent(map[string]any{
			"property": c.ID, "seed": c.Seed, "tier": c.Tier, "signature": s,
			"count": c.counters["violations:"+s], "violations": vs,
		}, "", " ")
		_ = os.WriteFile(path, b, 0o644)
		fmt.Printf("VIOLATION property=%s replay=%s\n", c.ID, path)
		fmt.Printf("  signature=%s: %s\n", s, vs[0].What)
		exit = 1
	}
	for _, s := range c.inconclusive {
		fmt.Printf("INCONCLUSIVE property=%s %s\n", c.ID, s)
	}
	if exit == 0 && len(c.checkErrors) > 0 {
		exit = 2
	}
	for _, s := range c.checkErrors {
		fmt.Printf("CHECK-ERROR property=%s %s\n", c.ID, s)
	}

	cov := map[string]any{
		"evaluations":         c.evaluations,
		"distinct_nontrivial": len(c.distinct),
		"rule":                c.rule,
		"samples":             c.samples,
		"inconclusive":        len(c.inconclusive),
		"known_finding_hits":  knownHits,
		"monitor_counters":    c.counters,
	}
	for k, v := range c.extra {
		cov[k] = v
	}
	if c.samples == nil {
		cov["samples"] = []any{}
	}
	ev := map[string]any{
		"property_id": c.ID,
		"tier":        c.Tier,
		"seed":        c.Seed,
		"level":       c.Level,
		"coverage":    cov,
		"assumptions": c.assumptions,
		"wall_s":      time.Since(c.start).Seconds(),
		"violations":  unknown,
		"go":          runtime.Version(),
	}
	if c.assumptions == nil {
		ev["assumptions"] = []string{}
	}
	b, err := json.MarshalIndent(ev, "", " ")
	if err != nil {
		fmt.Printf("CHECK-ERROR property=%s evidence does not marshal: %v\n", c.ID, err)
		if exit == 0 {
			exit = 2
		}
	} else {
		evdir := filepath.Join(dir, "evidence")
		if d := os.Getenv("VERIF_EVIDENCE_DIR"); d != "" {
			// runs against a scratch copy of the repository (seeded changes) must not overwrite the real evidence
			evdir = d
			_ = os.MkdirAll(evdir, 0o755)
		}
		_ = os.WriteFile(filepath.Join(evdir, c.ID+".json"), b, 0o644)
	}
	fmt.Printf("RESULT property=%s tier=%s seed=%d evaluations=%d distinct=%d violations=%d known=%d inconclusive=%d wall=%.1fs exit=%d\n",
		c.ID, c.Tier, c.Seed, c.evaluations, len(c.distinct), unknown, len(knownHits), len(c.inconclusive), time.Since(c.start).Seconds(), exit)
	return exit
}

// ReplayDir is where witnesses go: /verif/replays, or VERIF_REPLAY_DIR for runs against a scratch copy
// of the repository (so that they do not overwrite the witnesses of runs against /repo).
func ReplayDir() string {
	if d := os.Getenv("VERIF_REPLAY_DIR"); d != "" {
		return d
	}
	return filepath.Join(VerifDir(), "replays")
}

// Watchdog reports a progress violation if a watched section runs longer than
// its limit: the property itself promises an answer, so expiry is a violation
// when `progressIsProperty` is set, otherwise the run is inconclusive. It
// prints the contract line itself and exits, since a hung call cannot be
// cancelled from inside the process.
type Watchdog struct {
	c     *Ctx
	mu    sync.Mutex
	slots map[int]*wdSlot
	next  int
}

type wdSlot struct {
	deadline time.Time
	desc     any
	sig      string
	progress bool
}

// NewWatchdog starts the watchdog goroutine.
func (c *Ctx) NewWatchdog() *Watchdog {
	w := &Watchdog{c: c, slots: map[int]*wdSlot{}}
	go func() {
		for {
			time.Sleep(500 * time.Millisecond)
			w.mu.Lock()
			for _, s := range w.slots {
				if time.Now().After(s.deadline) {
					buf := make([]byte, 1<<20)
					n := runtime.Stack(buf, true)
					_ = os.MkdirAll(ReplayDir(), 0o755)
					dump := filepath.Join(ReplayDir(), fmt.Sprintf("%s-seed%d-watchdog-goroutines.txt", c.ID, c.Seed))
					_ = os.WriteFile(dump, buf[:n], 0o644)
					if ended := UnexpectedEnds(); ended != "" {
						// the wait cannot complete because an instance is gone, not because the code
						// under test withheld an answer
						c.CheckError("an instance ended by itself while " + s.sig + " was being waited for: " + ended)
						os.Exit(c.Finish())
					}
					if s.progress {
						c.Violate(s.sig, "no answer within the watchdog limit (goroutine dump: "+dump+")", s.desc)
						os.Exit(c.Finish())
					}
					c.Inconclusive(fmt.Sprintf("watchdog expired in %s (goroutine dump %s)", s.sig, dump))
					c.CheckError("watchdog expired on a wait that is not a progress obligation: " + s.sig)
					os.Exit(c.Finish())
				}
			}
			w.mu.Unlock()
		}
	}()
	return w
}

// Watch opens a watched section; call the returned func when it completes.
func (w *Watchdog) Watch(sig string, desc any, limit time.Duration, progressIsProperty bool) func() {
	w.mu.Lock()
	id := w.next
	w.next++
	w.slots[id] = &wdSlot{deadline: time.Now().Add(limit), desc: desc, sig: sig, progress: progressIsProperty}
	w.mu.Unlock()
	return func() {
		w.mu.Lock()
		delete(w.slots, id)
		w.mu.Unlock()
	}
}
