package vlib

import (
	"context"
	"errors"
	"fmt"
	"net"
	"os"
	"path/filepath"
	"strconv"
	"strings"
	"sync"
	"syscall"
	"time"

	natsserver "github.com/nats-io/nats-server/v2/server"
	"github.com/nats-io/nats.go"
	"github.com/simpleiot/simpleiot/client"
	"github.com/simpleiot/simpleiot/data"
	"github.com/simpleiot/simpleiot/server"
)

var portMu sync.Mutex
var portNext int
var portLo, portHi int
var portLocks = map[int]string{}

const portLockDir = "/tmp/verif-portlocks"

func portBase() int {
	if s := os.Getenv("VERIF_PORT_BASE"); s != "" {
		if v, err := strconv.Atoi(s); err == nil {
			return v
		}
	}
	return 21000
}

// SetPortBlock gives a check its own block of ports (index = property number).
// Blocks are disjoint (1900 ports each, 21000..59000) and allocation wraps inside
// the block; every process starts at a different offset.
func SetPortBlock(index int) {
	portMu.Lock()
	if os.Getenv("VERIF_PORT_BASE") != "" {
		portLo = portBase()
		portHi = portLo + 1900
	} else {
		portLo = 21000 + 1900*(index%20)
		portHi = portLo + 1900
	}
	portNext = portLo + (os.Getpid()*37)%1900
	portMu.Unlock()
}

// lockPort takes a cross-process lock on a port (a file holding our pid), so that two harness
// processes probing at the same time cannot both pick it.
func lockPort(p int) bool {
	_ = os.MkdirAll(portLockDir, 0o777)
	name := filepath.Join(portLockDir, strconv.Itoa(p))
	for try := 0; try < 2; try++ {
		f, err := os.OpenFile(name, os.O_CREATE|os.O_EXCL|os.O_WRONLY, 0o666)
		if err == nil {
			fmt.Fprintf(f, "%d", os.Getpid())
			f.Close()
			portLocks[p] = name
			return true
		}
		// stale lock of a process that is gone?
		b, rerr := os.ReadFile(name)
		pid, _ := strconv.Atoi(strings.TrimSpace(string(b)))
		if rerr == nil && pid > 0 && pid != os.Getpid() {
			if perr := syscall.Kill(pid, 0); perr != nil {
				_ = os.Remove(name)
				continue
			}
		}
		return false
	}
	return false
}

func unlockPorts(ports [4]int) {
	portMu.Lock()
	for _, p := range ports {
		if name, ok := portLocks[p]; ok {
			_ = os.Remove(name)
			delete(portLocks, p)
		}
	}
	portMu.Unlock()
}

func freePort() int {
	portMu.Lock()
	defer portMu.Unlock()
	if portNext == 0 {
		portLo = portBase()
		portHi = portLo + 1900
		portNext = portLo + (os.Getpid()*37)%1900
	}
	for i := 0; i < 20000; i++ {
		p := portNext
		portNext++
		if portNext >= portHi {
			portNext = portLo
		}
		if !lockPort(p) {
			continue
		}
		ok := false
		if l, err := net.Listen("tcp", fmt.Sprintf("127.0.0.1:%d", p)); err == nil {
			l.Close()
			if l2, err := net.Listen("tcp", fmt.Sprintf(":%d", p)); err == nil {
				l2.Close()
				ok = true
			}
		}
		if ok {
			return p
		}
		_ = os.Remove(portLocks[p])
		delete(portLocks, p)
	}
	panic("no free port")
}

// FreePort hands out one locked, probed port of the check's block; call release when done with it.
func FreePort() (port int, release func()) {
	p := freePort()
	return p, func() { unlockPorts([4]int{p}) }
}

// InstCfg configures an in-process Simple IoT instance.
type InstCfg struct {
	ID        string
	StoreFile string // reuse an existing file; "" = fresh file in a fresh temp dir
	AuthToken string
	// Clients returns the client managers to register (nil = bare instance)
	Clients func(nc *nats.Conn) []client.RunStop
	// Ports, if set, are reused (NATS, HTTP, NATS-HTTP, NATS-WS): a restarted instance keeps its address
	Ports [4]int
	// ExternalNats: do not start the embedded bus server; a NATS server is already listening on Ports[0]
	ExternalNats bool
}

// Instance is a running in-process instance.
type Instance struct {
	Cfg      InstCfg
	Opts     server.Options
	Srv      *server.Server
	Nc       *nats.Conn // the instance's own connection (store, managers)
	RootID   string
	Dir      string
	ownDir   bool
	Started  time.Time
	Ports    [4]int
	runErr   chan error
	stopOnce sync.Once
	conns    []*nats.Conn
	mu       sync.Mutex
	fresh    bool
}

// BareNats is a NATS server without a Simple IoT instance behind it (an upstream whose bus is already
// reachable while its store is not answering yet).
type BareNats struct{ S *natsserver.Server }

// StartBareNats starts a NATS server on the given port.
func StartBareNats(port int, token string) (*BareNats, error) {
	ns, err := natsserver.NewServer(&natsserver.Options{Host: "127.0.0.1", Port: port, Authorization: token, NoSigs: true, NoLog: true})
	if err != nil {
		return nil, fmt.Errorf("%w: bare nats: %v", ErrInfra, err)
	}
	go ns.Start()
	if !ns.ReadyForConnections(10 * time.Second) {
		ns.Shutdown()
		return nil, fmt.Errorf("%w: bare nats server not ready on port %d", ErrInfra, port)
	}
	return &BareNats{S: ns}, nil
}

// Stop shuts the server down.
func (b *BareNats) Stop() {
	b.S.Shutdown()
	b.S.WaitForShutdown()
}

// ErrInfra marks failures of the harness infrastructure (inconclusive, not violations).
var ErrInfra = errors.New("infrastructure")

// StartInstance starts an instance and waits until it is ready and quiet. Infrastructure
// failures (a port lost to another process between probing and binding) are retried.
func StartInstance(cfg InstCfg) (*Instance, error) {
	var in *Instance
	var err error
	for try := 0; try < 4; try++ {
		in, err = startInstanceOnce(cfg)
		if err == nil || !errors.Is(err, ErrInfra) || cfg.Ports[0] != 0 && try >= 1 {
			return in, err
		}
		time.Sleep(50 * time.Millisecond)
	}
	return in, err
}

func startInstanceOnce(cfg InstCfg) (*Instance, error) {
	in := &Instance{Cfg: cfg}
	if cfg.StoreFile == "" {
		d, err := os.MkdirTemp("", "verif-inst-")
		if err != nil {
			return nil, fmt.Errorf("%w: %v", ErrInfra, err)
		}
		in.Dir, in.ownDir = d, true
		cfg.StoreFile = filepath.Join(d, "store.sqlite")
	} else {
		in.Dir = filepath.Dir(cfg.StoreFile)
	}
	_, serr := os.Stat(cfg.StoreFile)
	in.fresh = serr != nil
	ports := cfg.Ports
	if ports[0] == 0 {
		ports = [4]int{freePort(), freePort(), freePort(), freePort()}
	} else {
		// a restart on the ports of a stopped instance: take the locks again
		portMu.Lock()
		for _, p := range ports {
			if _, mine := portLocks[p]; !mine {
				lockPort(p)
			}
		}
		portMu.Unlock()
	}
	in.Ports = ports
	np := ports[0]
	in.Opts = server.Options{
		StoreFile:         cfg.StoreFile,
		NatsPort:          np,
		HTTPPort:          strconv.Itoa(ports[1]),
		NatsHTTPPort:      ports[2],
		NatsWSPort:        ports[3],
		NatsServer:        fmt.Sprintf("nats://127.0.0.1:%d", np),
		AuthToken:         cfg.AuthToken,
		ID:                cfg.ID,
		NatsDisableServer: cfg.ExternalNats,
		// an unparsable field keeps the node manager from writing versionOS
		OSVersionField: "VERIF_NO_SUCH_FIELD",
	}
	srv, nc, err := server.NewServer(in.Opts)
	if err != nil {
		return nil, fmt.Errorf("%w: NewServer: %v", ErrInfra, err)
	}
	in.Srv, in.Nc = srv, nc
	if cfg.Clients != nil {
		for _, cl := range cfg.Clients(nc) {
			srv.AddClient(cl)
		}
	}
	in.runErr = make(chan error, 1)
	go func() { in.runErr <- srv.Run() }()
	ctx, cancel := context.WithTimeout(context.Background(), 30*time.Second)
	err = srv.WaitStart(ctx)
	cancel()
	if err != nil {
		in.abort()
		return nil, fmt.Errorf("%w: WaitStart: %v", ErrInfra, err)
	}
	// the bus server of this instance must be ours: if its port was taken by another process in the
	// meantime, Run fails ("address already in use") while the store would happily join the foreign bus
	select {
	case e := <-in.runErr:
		in.runErr <- e
		in.abort()
		return nil, fmt.Errorf("%w: instance ended during start-up: %v", ErrInfra, e)
	case <-time.After(20 * time.Millisecond):
	}
	in.Started = time.Now()
	in.setLive(true)
	// readiness: the node manager writes versionApp to the root once at start-up
	deadline := time.Now().Add(30 * time.Second)
	for {
		nodes, err := client.GetNodes(nc, "root", "all", "", false)
		if err == nil && len(nodes) > 0 {
			in.RootID = nodes[0].ID
			if cfg.ID != "" && in.fresh && in.RootID != cfg.ID {
				in.abort()
				return nil, fmt.Errorf("%w: the bus on port %d answers with root %q, not %q (port taken by another process)", ErrInfra, np, in.RootID, cfg.ID)
			}
			if _, ok := nodes[0].Points.Find(data.PointTypeVersionApp, ""); ok {
				break
			}
		}
		select {
		case e := <-in.runErr:
			in.runErr <- e
			in.abort()
			return nil, fmt.Errorf("%w: instance ended during start-up: %v", ErrInfra, e)
		default:
		}
		if time.Now().After(deadline) {
			in.Stop()
			return nil, fmt.Errorf("%w: instance not ready (root/versionApp missing): %v", ErrInfra, err)
		}
		time.Sleep(5 * time.Millisecond)
	}
	return in, nil
}

var liveMu sync.Mutex
var liveInst = map[*Instance]bool{}

// UnexpectedEnds names the instances whose Run returned although nobody stopped them.
func UnexpectedEnds() string {
	liveMu.Lock()
	defer liveMu.Unlock()
	out := ""
	for in := range liveInst {
		select {
		case e := <-in.runErr:
			in.runErr <- e
			out += fmt.Sprintf("[instance %s (bus port %d): Run returned %v] ", in.Cfg.ID, in.Ports[0], e)
		default:
		}
	}
	return out
}

func (in *Instance) setLive(v bool) {
	liveMu.Lock()
	if v {
		liveInst[in] = true
	} else {
		delete(liveInst, in)
	}
	liveMu.Unlock()
}

// abort gives up a half-started instance.
func (in *Instance) abort() {
	in.setLive(false)
	in.stopOnce.Do(func() { in.Srv.Stop(nil) })
	select {
	case <-in.runErr:
	case <-time.After(10 * time.Second):
	}
	unlockPorts(in.Ports)
	if in.ownDir {
		os.RemoveAll(in.Dir)
	}
}

// Age returns how long the instance has been up.
func (in *Instance) Age() time.Duration { return time.Since(in.Started) }

// Connect opens a new client connection to the instance's bus.
func (in *Instance) Connect() (*nats.Conn, error) {
	opts := []nats.Option{nats.Timeout(10 * time.Second), nats.NoReconnect()}
	if in.Opts.AuthToken != "" {
		opts = append(opts, nats.Token(in.Opts.AuthToken))
	}
	nc, err := nats.Connect(in.Opts.NatsServer, opts...)
	if err != nil {
		return nil, fmt.Errorf("%w: connect: %v", ErrInfra, err)
	}
	in.mu.Lock()
	in.conns = append(in.conns, nc)
	in.mu.Unlock()
	return nc, nil
}

// StopWait stops the instance and waits (up to limit) for Run to return.
// returned=false means Run did not return in time.
func (in *Instance) StopWait(limit time.Duration) (returned bool, runErr error) {
	in.mu.Lock()
	for _, c := range in.conns {
		c.Close()
	}
	in.conns = nil
	in.mu.Unlock()
	in.setLive(false)
	in.stopOnce.Do(func() { in.Srv.Stop(nil) })
	select {
	case e := <-in.runErr:
		in.runErr <- e
		unlockPorts(in.Ports)
		return true, e
	case <-time.After(limit):
		return false, nil
	}
}

// Stop stops the instance and removes its temp dir (if it owns one).
func (in *Instance) Stop() {
	if Aborted() {
		in.StopWait(5 * time.Second) // a violation is already recorded; a tree that cannot stop must not hold the verdict up
	} else {
		in.StopWait(60 * time.Second)
	}
	if in.ownDir {
		os.RemoveAll(in.Dir)
	}
}

// StopKeepFiles stops the instance but keeps the store file (for reopen tests).
func (in *Instance) StopKeepFiles() bool {
	ok, _ := in.StopWait(60 * time.Second)
	return ok
}

// Cleanup removes the temp dir.
func (in *Instance) Cleanup() {
	if in.ownDir {
		os.RemoveAll(in.Dir)
	}
}

// RunOnInstances runs cases 0..n-1 on bare/managed instances that are recycled
// before they are maxAge old (the store starts writing cycle metrics to the
// root node after 60 s, see DESIGN 1.6). Each worker has its own connection.
func RunOnInstances(cfg InstCfg, n, workers int, maxAge time.Duration, f func(in *Instance, nc *nats.Conn, i int)) error {
	next := 0
	var mu sync.Mutex
	for {
		mu.Lock()
		done := next >= n
		mu.Unlock()
		if done {
			return nil
		}
		in, err := StartInstance(cfg)
		if err != nil {
			return err
		}
		var wg sync.WaitGroup
		var werr error
		for w := 0; w < workers; w++ {
			nc, err := in.Connect()
			if err != nil {
				werr = err
				break
			}
			wg.Add(1)
			go func() {
				defer wg.Done()
				for {
					mu.Lock()
					if Aborted() {
						next = n
					}
					if next >= n || in.Age() > maxAge {
						mu.Unlock()
						return
					}
					i := next
					next++
					mu.Unlock()
					f(in, nc, i)
				}
			}()
		}
		wg.Wait()
		in.Stop()
		if werr != nil {
			return werr
		}
	}
}
