package vlib

import (
	"sort"

	"github.com/simpleiot/simpleiot/data"
)

// Graph is the harness's model of an instance's node graph.
type Graph struct {
	Root  string
	Types map[string]string                      // node id -> type (set when the first edge is created)
	NodeP map[string]map[[2]string]data.Point    // node id -> identity -> newest point
	Edges map[[2]string]map[[2]string]data.Point // (parent,id) -> identity -> newest edge point
}

// NewGraph makes a model holding only the instance root (under the "root" sentinel).
func NewGraph(root string) *Graph {
	g := &Graph{Root: root, Types: map[string]string{}, NodeP: map[string]map[[2]string]data.Point{}, Edges: map[[2]string]map[[2]string]data.Point{}}
	g.Edges[[2]string{"root", root}] = map[[2]string]data.Point{}
	g.Types[root] = "device"
	return g
}

func identKey(p data.Point) [2]string {
	k := p.Key
	if k == "" {
		k = "0"
	}
	return [2]string{p.Type, k}
}

// HasEdge tells whether the placement exists (deleted or not).
func (g *Graph) HasEdge(parent, id string) bool { _, ok := g.Edges[[2]string{parent, id}]; return ok }

// ApplyNodePoints folds an accepted node batch into the model (newest wins).
func (g *Graph) ApplyNodePoints(id string, pts data.Points) {
	m := g.NodeP[id]
	if m == nil {
		m = map[[2]string]data.Point{}
		g.NodeP[id] = m
	}
	for _, p := range pts {
		k := identKey(p)
		if cur, ok := m[k]; !ok || !p.Time.Before(cur.Time) {
			m[k] = p
		}
	}
}

// ApplyEdgePoints folds an accepted edge batch into the model; creates the edge.
func (g *Graph) ApplyEdgePoints(id, parent string, pts data.Points) {
	k := [2]string{parent, id}
	m := g.Edges[k]
	if m == nil {
		m = map[[2]string]data.Point{}
		g.Edges[k] = m
	}
	for _, p := range pts {
		if p.Type == data.PointTypeNodeType {
			if _, ok := g.Types[id]; !ok {
				g.Types[id] = p.Text
			}
			continue
		}
		ik := identKey(p)
		if cur, ok := m[ik]; !ok || !p.Time.Before(cur.Time) {
			m[ik] = p
		}
	}
}

// Deleted tells whether the placement carries a tombstone.
func (g *Graph) Deleted(parent, id string) bool {
	p, ok := g.Edges[[2]string{parent, id}][[2]string{data.PointTypeTombstone, "0"}]
	return ok && p.Value != 0
}

// Parents lists the parents of id (through live edges only unless includeDeleted).
func (g *Graph) Parents(id string, includeDeleted bool) []string {
	var out []string
	for k := range g.Edges {
		if k[1] == id && (includeDeleted || !g.Deleted(k[0], k[1])) {
			out = append(out, k[0])
		}
	}
	sort.Strings(out)
	return out
}

// Children lists the children of id.
func (g *Graph) Children(id string, includeDeleted bool) []string {
	var out []string
	for k := range g.Edges {
		if k[0] == id && (includeDeleted || !g.Deleted(k[0], k[1])) {
			out = append(out, k[1])
		}
	}
	sort.Strings(out)
	return out
}

// Ancestors returns every node reachable upward from id (id itself excluded,
// the "root" sentinel included when reached).
func (g *Graph) Ancestors(id string, throughDeleted bool) map[string]bool {
	out := map[string]bool{}
	var rec func(n string)
	rec = func(n string) {
		for _, p := range g.Parents(n, throughDeleted) {
			if !out[p] {
				out[p] = true
				rec(p)
			}
		}
	}
	rec(id)
	return out
}

// WouldCycle tells whether a new edge parent->id would make id its own ancestor
// (through live or deleted edges).
func (g *Graph) WouldCycle(id, parent string) bool {
	if id == parent {
		return true
	}
	return g.Ancestors(parent, true)[id]
}

// LiveUnderRoot tells whether id is connected to the root sentinel through live edges.
func (g *Graph) LiveUnderRoot(id string) bool { return g.Ancestors(id, false)["root"] }

// Nodes lists all node ids that have at least one edge.
func (g *Graph) Nodes() []string {
	seen := map[string]bool{}
	for k := range g.Edges {
		seen[k[1]] = true
	}
	out := make([]string, 0, len(seen))
	for n := range seen {
		out = append(out, n)
	}
	sort.Strings(out)
	return out
}

// EdgeKeys lists all placements (parent,id), sorted.
func (g *Graph) EdgeKeys() [][2]string {
	out := make([][2]string, 0, len(g.Edges))
	for k := range g.Edges {
		out = append(out, k)
	}
	sort.Slice(out, func(a, b int) bool {
		if out[a][0] != out[b][0] {
			return out[a][0] < out[b][0]
		}
		return out[a][1] < out[b][1]
	})
	return out
}

// ContentDiff compares what a tree walk returned with the model: every placement the model knows
// must be there with exactly the model's newest point per identity (time, value, text, tombstone),
// and no harness node may hold an identity the model does not know. The instance root is only
// checked for the identities the model has (the instance writes points of its own there); placements
// listed in instanceOwn (what a walk of the fresh instance returned, e.g. the default admin user) are
// skipped unless the model knows them.
func ContentDiff(w map[string]Placement, g *Graph, instanceOwn map[string]bool) string {
	eq := func(a, b data.Point) bool {
		return a.Time.UnixNano() == b.Time.UnixNano() && (a.Value == b.Value || (a.Value != a.Value && b.Value != b.Value)) && a.Text == b.Text && a.Tombstone == b.Tombstone &&
			a.Origin == b.Origin && string(a.Data) == string(b.Data)
	}
	var keys []string
	for k := range w {
		keys = append(keys, k)
	}
	sort.Strings(keys)
	for _, k := range keys {
		pl := w[k]
		if _, known := g.Edges[[2]string{pl.Parent, pl.ID}]; !known && instanceOwn[k] {
			continue
		}
		mp := g.NodeP[pl.ID]
		seen := map[[2]string]int{}
		for _, p := range pl.Points {
			ik := identKey(p)
			seen[ik]++
			want, ok := mp[ik]
			if !ok {
				if pl.ID == g.Root {
					continue
				}
				return "node " + pl.ID + " holds point " + CanonPoint(p) + " that no accepted write put there"
			}
			if pl.ID == g.Root && p.Time.After(want.Time) {
				continue
			}
			if !eq(want, p) {
				return "node " + pl.ID + " holds " + CanonPoint(p) + ", the newest accepted write is " + CanonPoint(want)
			}
			if seen[ik] > 1 {
				return "node " + pl.ID + " holds two points for identity " + ik[0] + "/" + ik[1]
			}
		}
		for ik, want := range mp {
			if seen[ik] == 0 {
				return "node " + pl.ID + " lacks " + CanonPoint(want)
			}
		}
		me, known := g.Edges[[2]string{pl.Parent, pl.ID}]
		if !known {
			return "placement " + k + " exists in the store but no accepted write created it"
		}
		seenE := map[[2]string]int{}
		for _, p := range pl.EdgePoints {
			if p.Type == data.PointTypeNodeType {
				continue
			}
			ik := identKey(p)
			seenE[ik]++
			want, ok := me[ik]
			if !ok && pl.ID == g.Root {
				continue
			}
			if !ok {
				return "edge " + k + " holds point " + CanonPoint(p) + " that no accepted write put there"
			}
			if pl.ID == g.Root && p.Time.After(want.Time) {
				continue // written by the instance itself, later than the harness's write
			}
			if !eq(want, p) {
				return "edge " + k + " holds " + CanonPoint(p) + ", the newest accepted write is " + CanonPoint(want)
			}
			if seenE[ik] > 1 {
				return "edge " + k + " holds two points for identity " + ik[0] + "/" + ik[1]
			}
		}
		for ik, want := range me {
			if seenE[ik] == 0 {
				return "edge " + k + " lacks " + CanonPoint(want)
			}
		}
	}
	return ""
}
