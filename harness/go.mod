module verifharness

go 1.20

require (
	github.com/anishathalye/porcupine v1.3.0
	github.com/goccy/go-yaml v1.11.2
	github.com/golang-jwt/jwt/v4 v4.0.0
	github.com/nats-io/nats-server/v2 v2.10.4
	github.com/nats-io/nats.go v1.31.0
	github.com/simpleiot/simpleiot v0.0.0
	modernc.org/sqlite v1.18.0
)

require (
	github.com/Wifx/gonetworkmanager/v2 v2.1.0 // indirect
	github.com/adrianmo/go-nmea v1.1.1-0.20190321164421-7572fbeb90aa // indirect
	github.com/beevik/ntp v0.3.0 // indirect
	github.com/blang/semver/v4 v4.0.0 // indirect
	github.com/creack/goselect v0.1.2 // indirect
	github.com/deepmap/oapi-codegen v1.8.2 // indirect
	github.com/dim13/cobs v0.1.0 // indirect
	github.com/donovanhide/eventsource v0.0.0-20171031113327-3ed64d21fb0b // indirect
	github.com/fatih/color v1.15.0 // indirect
	github.com/fsnotify/fsnotify v1.6.0 // indirect
	github.com/go-audio/audio v1.0.0 // indirect
	github.com/go-audio/riff v1.0.0 // indirect
	github.com/go-audio/wav v1.0.0 // indirect
	github.com/go-ocf/go-coap v0.0.0-20200224085725-3e22e8f506ea // indirect
	github.com/godbus/dbus/v5 v5.1.0 // indirect
	github.com/golang/protobuf v1.5.2 // indirect
	github.com/google/uuid v1.3.0 // indirect
	github.com/gorilla/websocket v1.4.1 // indirect
	github.com/influxdata/influxdb-client-go/v2 v2.10.0 // indirect
	github.com/influxdata/line-protocol v0.0.0-20210311194329-9aa0e372d097 // indirect
	github.com/kjx98/crc16 v0.0.0-20190915014410-d407ba22e1b5 // indirect
	github.com/klauspost/compress v1.17.2 // indirect
	github.com/koding/websocketproxy v0.0.0-20181220232114-7ed82d81a28c // indirect
	github.com/mattn/go-colorable v0.1.13 // indirect
	github.com/mattn/go-isatty v0.0.19 // indirect
	github.com/miekg/dns v1.1.55 // indirect
	github.com/minio/highwayhash v1.0.2 // indirect
	github.com/nats-io/jwt/v2 v2.5.2 // indirect
	github.com/nats-io/nkeys v0.4.6 // indirect
	github.com/nats-io/nuid v1.0.1 // indirect
	github.com/oklog/run v1.1.0 // indirect
	github.com/pion/dtls/v2 v2.0.0-rc.5 // indirect
	github.com/pion/logging v0.2.2 // indirect
	github.com/pkg/errors v0.9.1 // indirect
	github.com/remyoudompheng/bigfft v0.0.0-20200410134404-eec4a21b6bb0 // indirect
	github.com/shirou/gopsutil/v3 v3.23.7 // indirect
	github.com/simpleiot/canparse v0.0.0-20221208203709-740f6c246768 // indirect
	github.com/simpleiot/mdns v0.0.1 // indirect
	github.com/tklauser/go-sysconf v0.3.11 // indirect
	github.com/tklauser/numcpus v0.6.0 // indirect
	go.bug.st/serial v1.3.5 // indirect
	go.einride.tech/can v0.5.1 // indirect
	golang.org/x/crypto v0.14.0 // indirect
	golang.org/x/exp v0.0.0-20230905200255-921286631fa9 // indirect
	golang.org/x/net v0.17.0 // indirect
	golang.org/x/sync v0.3.0 // indirect
	golang.org/x/sys v0.13.0 // indirect
	golang.org/x/time v0.3.0 // indirect
	golang.org/x/xerrors v0.0.0-20220907171357-04be3eba64a2 // indirect
	google.golang.org/protobuf v1.27.1 // indirect
	gopkg.in/yaml.v2 v2.4.0 // indirect
	modernc.org/libc v1.16.7 // indirect
	modernc.org/mathutil v1.4.1 // indirect
	modernc.org/memory v1.1.1 // indirect
)

replace github.com/simpleiot/simpleiot => /repo
