// vrun runs one property check: vrun <ID> <quick|thorough> [--replay file]
package main

import (
	"fmt"
	"io"
	"log"
	"os"

	"verifharness/internal/checks"
)

func main() {
	if len(os.Args) < 3 {
		fmt.Fprintln(os.Stderr, "usage: vrun <ID> <quick|thorough> [args]")
		os.Exit(2)
	}
	id, tier := os.Args[1], os.Args[2]
	if os.Getenv("VERIF_DEBUG") == "" {
		log.SetOutput(io.Discard) // the code under test logs every request
	}
	f, ok := checks.Registry[id]
	if !ok {
		fmt.Printf("CHECK-ERROR property=%s no such check\n", id)
		os.Exit(2)
	}
	os.Exit(f(tier, os.Args[3:]))
}
