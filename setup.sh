#!/bin/bash
# Builds the harness (plain and -race) offline against /repo's working tree.
set -e
cd "$(dirname "$0")/harness"
export GOFLAGS=-mod=mod GOPROXY=off GOSUMDB=off GOTOOLCHAIN=local
mkdir -p ../.bin ../.logs ../evidence ../replays
CGO_ENABLED=0 go build -tags verif -o ../.bin/vrun ./cmd/vrun
CGO_ENABLED=1 go build -race -tags verif -o ../.bin/vrun-race ./cmd/vrun
echo setup ok
