#!/bin/bash
# tools/seed_regress.sh [name ...]
# Re-applies every recorded seeded change (seeded/<name>/patch.diff) to a scratch worktree of /repo
# and runs the check that is recorded as detecting it (meta.json detected_by); prints DETECTED / MISSED.
# Nothing is changed in /repo; worktrees live under /tmp/wt and are removed.
set -u
HERE="$(cd "$(dirname "$0")/.." && pwd)"
export GOFLAGS=-mod=mod GOPROXY=off GOSUMDB=off GOTOOLCHAIN=local
mkdir -p /tmp/wt
names=("$@")
[ ${#names[@]} -eq 0 ] && names=($(ls "$HERE/seeded"))
missed=0
for n in "${names[@]}"; do
  d="$HERE/seeded/$n"
  [ -f "$d/patch.diff" ] || continue
  id=$(jq -r '.detected_by.check // .property' "$d/meta.json")
  tier=$(jq -r '.detected_by.tier // "quick"' "$d/meta.json")
  wt=/tmp/wt/reg-$n
  git -C /repo worktree remove --force "$wt" 2>/dev/null
  git -C /repo worktree add -q --detach "$wt" HEAD || { echo "SEEDREG $n worktree-failed"; continue; }
  if ! git -C "$wt" apply "$d/patch.diff" 2>/dev/null; then
    echo "SEEDREG $n patch-does-not-apply"; missed=$((missed+1))
  else
    out=$(cd "$HERE" && VERIF_REPO="$wt" ./check "$id" "$tier" 2>&1); rc=$?
    if [ $rc -eq 1 ] && grep -q "^VIOLATION property=$id" <<<"$out"; then
      echo "SEEDREG $n DETECTED by $id $tier: $(grep -m1 '^  signature' <<<"$out" | cut -c1-160)"
    else
      echo "SEEDREG $n MISSED by $id $tier (exit $rc): $(grep -E '^(RESULT|CHECK-ERROR)' <<<"$out" | head -1 | cut -c1-200)"; missed=$((missed+1))
    fi
  fi
  git -C /repo worktree remove --force "$wt"
done
echo "SEEDREG done missed=$missed"
[ $missed -eq 0 ]
