#!/usr/bin/env python3
# tools/r10_meta.py : writes seeded/<ID>S/meta.json for the tenth round from the confirmation logs (.logs/confirm_r10_<ID>.out)
import json,os,re,sys
T={
'C01':("Collapse no longer maps the blank key to \"0\" when it indexes a batch","one batch holding the same identity once with key \"\" and once with key \"0\", the older one later in the batch","store:older-point-wins"),
'C02':("syncNode keeps using the node-point bookkeeping map for the edge-point comparison","an edge point that exists upstream only, at an index the node-point pass has already marked","sync:not-converged:edge-point-missing-downstream"),
'C05':("points.Collapse() moved above checkPointValues in nodePoints and edgePoints","a batch in which a NaN point is shadowed by a newer valid point of the same identity","refused-write:accepted:nan-shadowed"),
'C06':("the two upstream walks merged into one helper whose recursive call passes includeDeleted=false","edge-point write on a node with a tombstoned edge two or more levels above it","rebroadcast:ancestor-missed:edge"),
'C07':("Manager.mapKey returns the node id alone instead of parent-id","a managed node placed under two parents (mirror)","manager:running-set-wrong:after-mirror"),
'C08':("nodePoints writes an incoming point only when it is strictly newer than the stored one","two batches carrying the same identity under one timestamp with different content","client-delivery:folded-config-differs-from-store"),
'C09':("userCheck returns the verdict of the first upstream edge instead of trying them all","user (or its group) placed in two places, the first of them below a deleted edge","auth:login-verdict-wrong-between-steps"),
'C13':("ruleProcessPoints loops over conditions outside and points inside","one batch from a matching node with two or more points that flip one condition away from and back to its state before the batch","rule:"),
'C15':("ReplaceIDs translates a node-id reference only when the referenced node has been met earlier in the walk","node-id point that refers to a node later in the exported tree (forward reference)","import:reference-not-following-id-map"),
'C18':("address range test rewritten as a 16-bit wrap-around test (address+quantity < address)","request whose last item is address 0xFFFF exactly (address+quantity = 0x10000)","modbus-server:exception-for-valid-request"),
'C04':("edgePoints no longer writes meta.root_id in the transaction that inserts the root edge; only initRoot's last UPDATE records it","process death after the root-edge commit and before that UPDATE (first-time initialisation, or a root replacement)","crash:"),
'C10':("DiffPoints skips zero-valued fields of the old struct when a pointer-to-struct becomes nil","*struct going from non-nil to nil while one of its fields holds the zero value","config:diffmerge-mismatch"),
'C11':("tombstone test in the slice/array loop of SetValue written as %2 == 1 (false for negative odd counts)","point with tombstone -1, -3, ... whose index lies at or beyond the length of the target","decode-panic:"),
'C12':("Point.ToPb / PbToPoint moved to timestamppb, splitting UnixNano() with / and %","time before 1970 with a fractional second, or outside 1678..2262","wire:"),
'C14':("activeForTime caches the day's windows on the schedule value, keyed by the date in the instant's own zone","one schedule value evaluated at two non-UTC instants that share a local date and fall on different UTC days","schedule:wrong-in-a-sequence-of-calls"),
'C16':("Read strips leading delimiters from every device read before appending it to the leftover","device read that begins with the closing delimiter of a frame partly buffered from an earlier read","cobs:chunking-loses-frames"),
'C17':("SerialEncode copies the subject into the first 15 bytes of the 16-byte field","subject of exactly 16 bytes","serial:header-changed"),
'C19':("RegsToInt32SwapWords rewritten with shifts; the low word is sign-extended before the OR","swapped word order, low word with bit 15 set, high word other than 0xFFFF","modbus-conv:RegsToInt32SwapWords"),
'C03':("updateHashHelper skips an edge it has already updated during the same write instead of XOR-ing the delta in once per path","node placed under several parents that share an ancestor (any mirror or diamond): the delta must cancel at the common ancestor","hash:"),
'C20':("processPointsUpstream takes the handler lock (read) again before it walks upwards, inside handlers that already hold it","Stop arriving while a write handler is between its own read lock and the upward walk: Run's pending write lock blocks the second read lock, the handler never answers and Run never returns","concurrency:stop-does-not-terminate"),
}
here=os.path.dirname(os.path.dirname(os.path.abspath(__file__)))
for ID in sys.argv[1:]:
    log=open(f'{here}/.logs/confirm_r10_{ID}.out').read()
    need=['demo-without-change=PASS','build=ok','demo-with-change=FAIL','130/130 stable tests pass','check-exit=1']
    miss=[n for n in need if n not in log]
    if miss: print(ID,'NOT CONFIRMED',miss); continue
    sig=re.search(r'signature=([^ ]*?):? ',log)
    d=f'{here}/seeded/{ID}S'
    ch,needs,_=T[ID]
    m={"property":ID,"change":ch,"needs_to_manifest":needs,
       "detected_by":{"check":ID,"tier":"quick","signature":sig.group(1).rstrip(':') if sig else ""},
       "history":"caught as built",
       "origin":"independent sub-agent (tenth round) given only the property text and its own worktree",
       "confirmed_by_me":["patch applies to /repo HEAD (git apply)","go build ./... ok",
         "repository suite with the guard off: 130/130 stable tests pass (baseline_off.sh on a scratch worktree, private network namespace)",
         "demonstration fails with the change and passes without it",
         f"VERIF_REPO=<scratch worktree> ./check {ID} quick"],
       "demonstration":{"file":"demo_test.go","with_change":"FAIL","without_change":"PASS"}}
    json.dump(m,open(d+'/meta.json','w'),indent=1); print(ID,'meta written',m['detected_by']['signature'])
