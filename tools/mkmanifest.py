#!/usr/bin/env python3
"""Regenerates /verif/MANIFEST.json from the table below (kept valid at all times)."""
import json, subprocess, os
HERE=os.path.dirname(os.path.dirname(os.path.abspath(__file__)))
props=[json.loads(l) for l in open(os.path.join(HERE,'properties.jsonl'))]
ids=[p['id'] for p in props]

# id -> (category, technique, level text, level note, design ref)
CHECKS={}
def add(id,cat,tech,text,note,ref):
    CHECKS[id]=dict(cat=cat,tech=tech,text=text,note=note,ref=ref)

exec(open(os.path.join(HERE,'tools','checks_table.py')).read())

hooks_commits=[]
try:
    out=subprocess.run(['git','-C','/repo','log','--format=%H %s'],capture_output=True,text=True).stdout
    hooks_commits=[l.split()[0] for l in out.splitlines() if l.split(' ',1)[1].startswith('verif hooks:')]
except Exception: pass

m={
 "version":1,
 "setup_cmd":"./setup.sh",
 "hooks":{
  "guard":"verif (Go build tag)",
  "enable":"go build -tags verif (the harness module /verif/harness replaces github.com/simpleiot/simpleiot with /repo, so every check rebuilds the repository's current working tree with the tag on)",
  "baseline_off_cmd":"./baseline_off.sh",
  "source_commits":hooks_commits,
  "add_only":True,
 },
 "engines":[{"name":"vrun","path":"harness/cmd/vrun","serves_properties":sorted(CHECKS),"kind_free_text":"Go harness: PRNG workload generators + reference-model / history monitors running the real packages; race detector, porcupine, strace fault injection where stated"}],
 "checks":[],
 "not_applicable":[],
 "notes":"Runtime monitoring only: every verdict is 'held on the executions observed'. See DESIGN.md. Known findings: known_findings.json.",
}
for id in ids:
    if id in CHECKS:
        c=CHECKS[id]
        m["checks"].append({
         "property_id":id,
         "quick_cmd":"./check %s quick"%id,
         "thorough_cmd":"./check %s thorough"%id,
         "evidence_file":"evidence/%s.json"%id,
         "replay_cmd_template":"./check %s quick --replay {path}"%id,
         "engine":"vrun",
         "level_claimed":{"category":c['cat'],"text":c['text'],"design_ref":c['ref']},
         "level_note":c['note'],
         "technique":c['tech'],
        })
    else:
        m["not_applicable"].append({"property_id":id,"reason":"check not built yet in this round (runtime monitoring applies; see DESIGN.md section 2 for the planned monitor)"})
json.dump(m,open(os.path.join(HERE,'MANIFEST.json'),'w'),indent=1)
print("checks:",len(m['checks']),"not_applicable:",len(m['not_applicable']))
