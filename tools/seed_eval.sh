#!/bin/bash
# tools/seed_eval.sh <name> <propertyID> <patch.diff> <demo_test.go> <demo package dir> <test -run regex> [tier]
# Confirms a seeded change in a scratch worktree (builds, suite passes, demo fails with / passes without) and runs the check against it.
set -u
NAME="$1"; ID="$2"; PATCH="$3"; DEMO="$4"; DDIR="$5"; RUN="$6"; TIER="${7:-quick}"
export GOFLAGS=-mod=mod GOPROXY=off GOSUMDB=off GOTOOLCHAIN=local
WT=/tmp/wt/eval-$NAME
git -C /repo worktree remove --force "$WT" 2>/dev/null
git -C /repo worktree add -q --detach "$WT" HEAD || exit 2
cd "$WT"
res() { echo "SEED $NAME $1"; }
mkdir -p "$DDIR"; cp "$DEMO" "$DDIR/zz_seed_demo_test.go"
if flock /tmp/siot-test-ports.lock timeout 300 go test ${DEMOTAGS:+-tags $DEMOTAGS} -vet=off -count=1 -run "$RUN" "./$DDIR/" >/tmp/wt/eval-$NAME.demo0.log 2>&1; then res "demo-without-change=PASS"; else res "demo-without-change=FAIL"; fi
if ! git apply "$PATCH"; then res "patch-does-not-apply"; exit 2; fi
if go build ./... >/tmp/wt/eval-$NAME.build.log 2>&1; then res "build=ok"; else res "build=FAIL"; fi
if flock /tmp/siot-test-ports.lock timeout 300 go test ${DEMOTAGS:+-tags $DEMOTAGS} -vet=off -count=1 -run "$RUN" "./$DDIR/" >/tmp/wt/eval-$NAME.demo1.log 2>&1; then res "demo-with-change=PASS"; else res "demo-with-change=FAIL"; fi
rm -f "$DDIR/zz_seed_demo_test.go"
VERIF_REPO="$WT" /verif/baseline_off.sh | sed "s/^/SEED $NAME suite: /"
cd /verif
if [ -n "${NOCHECK:-}" ]; then git -C /repo worktree remove --force "$WT"; exit 0; fi
VERIF_REPO="$WT" ./check "$ID" "$TIER" > /tmp/wt/eval-$NAME.check.log 2>&1; RC=$?
res "check-exit=$RC"
grep -E "^(VIOLATION|  signature|RESULT|CHECK-ERROR)" /tmp/wt/eval-$NAME.check.log | cut -c1-300 | sed "s/^/SEED $NAME check: /"
git -C /repo worktree remove --force "$WT"
