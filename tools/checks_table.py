RM='runtime monitoring: '
add('C10','exploration',RM+'generated values of generated struct types through the real Encode/Decode/DiffPoints/MergePoints with a deep-equality oracle',
    'Random configuration struct types (reflect.StructOf over every supported field kind, plus a static type through the typed API) and random values inside the documented limits are pushed through Encode->Decode and Diff->Merge and compared with an independent deep-equality oracle. Held on the cases generated; no proof.',
    'reflect.StructOf types stand for hand-written client configs; equality treats nil and empty slices/maps alike; after Diff/Merge floats compare numerically (+0==-0).','DESIGN.md 2/C10')
add('C11','exploration',RM+'hostile point lists into Decode/MergePoints/MergeEdgePoints under a panic monitor, plus an unchanged-target oracle for undeclared types',
    'Every supported field kind x arbitrary prior values x point lists over hostile keys/values/tombstones is decoded with recover() as the crash monitor; lists of undeclared types must leave the target bit-identical. Held on the inputs generated.',
    'Go panics are the crash signal; only exported, tagged fields of supported kinds are generated.','DESIGN.md 2/C11')
add('C12','exploration',RM+'generated round trips + decoder totality monitor (recover() around every call) over the real codec functions',
    'Every generated point/node is pushed through the real wire codecs and compared field by field (value by bits); every decoder and subject parser is fed random and mutated byte strings with a panic monitor. Held on the inputs generated, not a proof.',
    'Go runtime panics are the crash signal; generators cover wire-range times and int32 tombstones only; protobuf library trusted.','DESIGN.md 2/C12')
add('C14','exploration',RM+'dense time grids through the real activeForTime against an independent day-D reference definition, in five time zones',
    'For each sampled schedule config every minute of nine days plus the instants around every window edge are evaluated in five zones against the property\'s own definition. Exhaustive per config over that grid, sampled over configs.',
    'Uses the verif-tag accessor client.VerifScheduleActive (wraps the unexported schedule type); only well-formed HH:MM / dates.','DESIGN.md 2/C14')
add('C16','exploration',RM+'scripted io.ReadWriteCloser feeding the real CobsWrapper every segmentation / damage; exact-sequence and prefix/suffix oracles',
    'Frame sequences written through CobsWrapper.Write are replayed through CobsWrapper.Read under exhaustive one- and two-cut segmentations (short streams), random multi-cuts, and every single damage event; the oracle demands the exact frame sequence, or exact prefix and suffix around damage. Held on the executions run.',
    'Zero-length frames excluded (indistinguishable from a (0,nil) read); maximum frame derived from maxMessageLength.','DESIGN.md 2/C16')
add('C17','exploration',RM+'exhaustive 1-bit/2-bit/burst error injection into real packets with SerialDecode as the system under observation',
    'Packets over all documented subjects are round-tripped field by field, then every 1-bit, every 2-bit and every <=16-bit burst error (UART bit order; exhaustive interiors to length 10, sampled above) is applied and SerialDecode must reject or return identical content. Exhaustive per packet within those classes, sampled over packets.',
    'log packets excluded by design; burst = consecutive bits LSB-first per byte (UART order).','DESIGN.md 2/C17')
add('C18','exploration',RM+'stateful request sequences into the real ProcessRequest vs an executable Modbus-spec reference server; panic and hang monitors',
    'Structured and raw random requests are replayed against seven register maps; response, error return and register file are compared with a reference server written from the Modbus specification, with stated tolerances. Held on the requests generated.',
    'Reference model is the trusted base (Modbus Application Protocol v1.1b3 + the repo\'s documented register file).','DESIGN.md 2/C18')
add('C19','exploration',RM+'real Client<->Server.Listen over in-memory RTU and TCP links with a man-in-the-middle corruptor; value/count oracle from the server register file',
    'Every client method is driven against a live server over both framings for addresses, counts, unit ids and 70000 consecutive TCP transactions; returned values and counts are compared with the server\'s registers; damaged frames must be rejected; conversions checked bit-exact (2^16 exhaustive, 32-bit sampled).',
    'In-memory packet-preserving duplex stands for a serial line behind respreader; net.Pipe stands for TCP.','DESIGN.md 2/C19')
add('C01','exploration',RM+'acknowledged bus writes to a live instance in generated orders/batchings, read back after every batch against a newest-wins register model',
    'Each generated point set is delivered to fresh nodes and fresh edges of a real instance under several permutations, partitions and re-deliveries; after every acknowledged batch the node is read back and compared, field by field, with an argmax-timestamp model. Held on the deliveries generated.',
    'Observation at the NATS API (p.*, nodes.*); equal timestamps, zero times and nodeType edge points not generated.','DESIGN.md 2/C01')
add('C03','exploration',RM+'random graph histories on a live instance; after every operation all reported hashes vs a from-scratch Merkle hash of the same replies; storeVerify/storeMaint no-op monitor',
    'Random histories (create, write, stale write, mirror, diamond, move, delete, undelete, -0.0) are applied to a fresh instance and after every operation every placement\'s reported hash is compared with an independent implementation of the documented definition; store maintenance must change nothing.',
    'Independent CRC/XOR implementation is the trusted base; quiescence = harness is the only writer and all its writes are acknowledged.','DESIGN.md 2/C03')
add('C05','exploration',RM+'must-refuse / look-alike / open-status requests against a live instance with a full-dump differ, an up.> tap at the reply barrier and a follow-up-write watchdog',
    'Requests of every class the property says must be refused (and legal look-alikes) are sent to instances with random graphs; the monitor checks the reply, that nothing observable changed after any error reply (dump and rebroadcast stream), and that the instance keeps answering.',
    'Barrier relies on NATS per-publisher ordering; process death by stack exhaustion is mapped to a violation by the wrapper.','DESIGN.md 2/C05')
add('C06','exploration',RM+'up.> subscription drained at the reply barrier vs ancestor sets computed on the harness graph model, over enumerated graph shape classes',
    'For every node and placement of graphs from eight shape classes an acknowledged write is made and the exact multiset of rebroadcast subjects and payloads is compared with the model\'s ancestor set (live edges for node points, any edges for edge points).',
    'Barrier relies on NATS per-publisher ordering; stale writes and the legacy "none" parent are not generated.','DESIGN.md 2/C06')
