RM='runtime monitoring: '
add('C10','exploration',RM+'generated values of generated struct types through the real Encode/Decode/DiffPoints/MergePoints with a deep-equality oracle',
    'Random configuration struct types (reflect.StructOf over every supported field kind, plus a static type through the typed API) and random values inside the documented limits are pushed through Encode->Decode and Diff->Merge and compared with an independent deep-equality oracle. Held on the cases generated; no proof.',
    'reflect.StructOf types stand for hand-written client configs; equality treats nil and empty slices/maps alike; after Diff/Merge floats compare numerically (+0==-0).','DESIGN.md 2/C10')
add('C11','exploration',RM+'hostile point lists into Decode/MergePoints/MergeEdgePoints under a panic monitor, plus an unchanged-target oracle for undeclared types',
    'Every supported field kind x arbitrary prior values x point lists over hostile keys/values/tombstones is decoded with recover() as the crash monitor; lists of undeclared types must leave the target bit-identical. Held on the inputs generated.',
    'Go panics are the crash signal; only exported, tagged fields of supported kinds are generated.','DESIGN.md 2/C11')
add('C12','exploration',RM+'generated round trips + decoder totality monitor (recover() around every call) over the real codec functions',
    'Every generated point/node is pushed through the real wire codecs and compared field by field (value by bits); every decoder and subject parser is fed random and mutated byte strings with a panic monitor. Held on the inputs generated, not a proof.',
    'Go runtime panics are the crash signal; generators cover wire-range times and int32 tombstones only; protobuf library trusted.','DESIGN.md 2/C12')
add('C14','exploration',RM+'dense time grids through the real activeForTime against an independent day-D reference definition, in five time zones',
    'For each sampled schedule config every minute of nine days plus the instants around every window edge are evaluated in five zones against the property\'s own definition. Exhaustive per config over that grid, sampled over configs.',
    'Uses the verif-tag accessor client.VerifScheduleActive (wraps the unexported schedule type); only well-formed HH:MM / dates.','DESIGN.md 2/C14')
add('C16','exploration',RM+'scripted io.ReadWriteCloser feeding the real CobsWrapper every segmentation / damage; exact-sequence and prefix/suffix oracles',
    'Frame sequences written through CobsWrapper.Write are replayed through CobsWrapper.Read under exhaustive one- and two-cut segmentations (short streams), random multi-cuts, and every single damage event; the oracle demands the exact frame sequence, or exact prefix and suffix around damage. Held on the executions run.',
    'Zero-length frames excluded (indistinguishable from a (0,nil) read); maximum frame derived from maxMessageLength.','DESIGN.md 2/C16')
add('C17','exploration',RM+'exhaustive 1-bit/2-bit/burst error injection into real packets with SerialDecode as the system under observation',
    'Packets over all documented subjects are round-tripped field by field, then every 1-bit, every 2-bit and every <=16-bit burst error (UART bit order; exhaustive interiors to length 10, sampled above) is applied and SerialDecode must reject or return identical content. Exhaustive per packet within those classes, sampled over packets.',
    'log packets excluded by design; burst = consecutive bits LSB-first per byte (UART order).','DESIGN.md 2/C17')
add('C18','exploration',RM+'stateful request sequences into the real ProcessRequest vs an executable Modbus-spec reference server; panic and hang monitors',
    'Structured and raw random requests are replayed against seven register maps; response, error return and register file are compared with a reference server written from the Modbus specification, with stated tolerances. Held on the requests generated.',
    'Reference model is the trusted base (Modbus Application Protocol v1.1b3 + the repo\'s documented register file).','DESIGN.md 2/C18')
add('C19','exploration',RM+'real Client<->Server.Listen over in-memory RTU and TCP links with a man-in-the-middle corruptor; value/count oracle from the server register file',
    'Every client method is driven against a live server over both framings for addresses, counts, unit ids and 70000 consecutive TCP transactions; returned values and counts are compared with the server\'s registers; damaged frames must be rejected; conversions checked bit-exact (2^16 exhaustive, 32-bit sampled).',
    'In-memory packet-preserving duplex stands for a serial line behind respreader; net.Pipe stands for TCP.','DESIGN.md 2/C19')
