add('C12','exploration','runtime monitoring: generated round trips + decoder totality monitor (recover() around every call) over the real codec functions',
    'Every generated point/node is pushed through the real wire codecs and compared field by field (value by bits); every decoder and subject parser is fed random and mutated byte strings with a panic monitor. Held on the inputs generated, not a proof.',
    'Go runtime panics are the crash signal; generators cover wire-range times and int32 tombstones only; protobuf library trusted.','DESIGN.md 2/C12')
