#!/bin/bash
# tools/seed_stage.sh <worktree dir with SEEDED/> <propID> <nameA> <nameB>
# copies an agent's deliverables into seeded/<name>/ (patch.diff, demo_test.go, author_notes.md) with a skeleton meta.json
set -u
WT="$1"; ID="$2"; shift 2
HERE="$(cd "$(dirname "$0")/.." && pwd)"
for x in A B; do
  n="$1"; shift
  d="$HERE/seeded/$n"; mkdir -p "$d"
  cp "$WT/SEEDED/$x.patch.diff" "$d/patch.diff"
  if [ -f "$WT/SEEDED/${x}_demo_test.go" ]; then cp "$WT/SEEDED/${x}_demo_test.go" "$d/demo_test.go"; fi
  if [ -d "$WT/SEEDED/${x}_demo" ]; then cp -r "$WT/SEEDED/${x}_demo" "$d/demo"; fi
  cp "$WT/SEEDED/$x.md" "$d/author_notes.md"
  [ -f "$d/meta.json" ] || cat > "$d/meta.json" <<J
{
 "property": "$ID",
 "change": "",
 "needs_to_manifest": "",
 "detected_by": {"check": "$ID", "tier": "quick", "signature": ""},
 "history": "",
 "origin": "independent sub-agent (second round) given only the property text and its own worktree"
}
J
done
