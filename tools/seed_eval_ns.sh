#!/bin/bash
# tools/seed_eval_ns.sh <name> <propertyID> <demo package dir> <test -run regex>
# Confirmation of a staged seeded change (seeded/<name>/patch.diff, demo_test.go) like seed_eval.sh with NOCHECK=1
# (build, demonstration with/without the change, repository suite with the guard off), but inside a private
# network namespace (unshare -n, loopback up): the suite's fixed ports (8900-8913) then clash with nobody, so
# several confirmations run side by side instead of queueing behind /tmp/siot-test-ports.lock (about 100 s each).
# The check itself is run separately: VERIF_REPO=<scratch worktree with the patch> ./check <ID> quick
set -u
NAME="$1"; ID="$2"; DDIR="$3"; RUN="$4"
HERE="$(cd "$(dirname "$0")/.." && pwd)"
T="$(mktemp -d /tmp/seed-ns-XXXXXX)"
sed "s#/tmp/siot-test-ports.lock#$T/lock#g" "$HERE/baseline_off.sh" > "$T/baseline_off.sh"
sed -e "s#/tmp/siot-test-ports.lock#$T/lock#g" -e "s#/verif/baseline_off.sh#$T/baseline_off.sh#" "$HERE/tools/seed_eval.sh" > "$T/seed_eval.sh"
chmod +x "$T"/*.sh
S="$HERE/seeded/$NAME"
NOCHECK=1 unshare -n bash -c "ip link set lo up; exec $T/seed_eval.sh $NAME $ID $S/patch.diff $S/demo_test.go $DDIR '$RUN'"
rm -rf "$T"
