#!/opt/veriftools/pyvenv/bin/python3
import json,jsonschema,glob,sys,os
H=os.path.dirname(os.path.dirname(os.path.abspath(__file__)))
jsonschema.validate(json.load(open(H+'/MANIFEST.json')),json.load(open('/root/.vp/MANIFEST.schema.json')))
es=json.load(open('/root/.vp/EVIDENCE.schema.json'))
for f in sorted(glob.glob(H+'/evidence/*.json')):
    jsonschema.validate(json.load(open(f)),es)
    print('valid',os.path.basename(f))
print('manifest valid')
