#!/usr/bin/env python3
# tools/r10_meta.py : writes seeded/<ID>S/meta.json for the tenth round, fourth wave from the confirmation logs (.logs/confirm_r11_<ID>.out)
import json,os,re,sys
T={
'C02':("SyncClient remembers the local hash of the last pass that found both sides equal and skips the upstream fetch while it is unchanged; the memory is cleared on a configured disconnect only","upstream accepts a change while the downstream cannot reach it (connection drop / upstream restarted elsewhere, link still enabled), nothing changes downstream","sync:"),
'C03':("new edge above a populated node folds in the hashes of live child edges only","node with a deleted child edge gets a new edge above it afterwards (mirror, move)","hash:"),
'C06':("live-parent lists cached per node; the entry is dropped after a new edge or a delete, not after an undelete","delete an edge, write on the node while detached, undelete the edge, write again","rebroadcast:"),
'C07':("scan returns early when the number of nodes found equals the number of running clients","within one scan interval a client's node disappears with its group and another node of the type is created","manager:"),
'C08':("manager restarts a client for an edge point of a child only when a nodeType point is among them (no longer on tombstone=0)","child deleted while the client runs and restored by a bare tombstone=0 edge point","manager:"),
}
here=os.path.dirname(os.path.dirname(os.path.abspath(__file__)))
for ID in sys.argv[1:]:
    log=open(f'{here}/.logs/confirm_r11_{ID}.out').read()
    need=['demo-without-change=PASS','build=ok','demo-with-change=FAIL','130/130 stable tests pass','check-exit=1']
    miss=[n for n in need if n not in log]
    if miss: print(ID,'NOT CONFIRMED',miss); continue
    sig=re.search(r'signature=([^ ]*?):? ',log)
    d=f'{here}/seeded/{ID}T'
    ch,needs,_=T[ID]
    m={"property":ID,"change":ch,"needs_to_manifest":needs,
       "detected_by":{"check":ID,"tier":"quick","signature":sig.group(1).rstrip(':') if sig else ""},
       "history":"caught as built",
       "origin":"independent sub-agent (tenth round, fourth wave) given only the property text and its own worktree",
       "confirmed_by_me":["patch applies to /repo HEAD (git apply)","go build ./... ok",
         "repository suite with the guard off: 130/130 stable tests pass (baseline_off.sh on a scratch worktree, private network namespace)",
         "demonstration fails with the change and passes without it",
         f"VERIF_REPO=<scratch worktree> ./check {ID} quick"],
       "demonstration":{"file":"demo_test.go","with_change":"FAIL","without_change":"PASS"}}
    json.dump(m,open(d+'/meta.json','w'),indent=1); print(ID,'meta written',m['detected_by']['signature'])
